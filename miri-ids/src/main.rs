//! C19, clause "connection identifiers are distinct", under concurrent creation from several OS
//! threads. Run under Miri, which owns the thread schedule: one `-Zmiri-seed` is one exactly
//! repeatable interleaving (preemption may strike between any two basic blocks, so also between a
//! load and a store of a counter that is not updated atomically).
//!
//! usage: zids <threads> <connections per thread> [--sequential]
//! exit 0 = all ids pairwise distinct; exit 1 = duplicate (printed).

use std::{sync::Arc, sync::Barrier, thread};
use zlink_core::connection::socket::{ReadHalf, Socket, WriteHalf};
use zlink_core::Connection;

#[derive(Debug)]
struct NullSocket;
#[derive(Debug)]
struct NullRead;
#[derive(Debug)]
struct NullWrite;

impl ReadHalf for NullRead {
    async fn read(&mut self, _buf: &mut [u8]) -> zlink_core::Result<usize> {
        std::future::pending().await
    }
}

impl WriteHalf for NullWrite {
    async fn write(&mut self, _buf: &[u8]) -> zlink_core::Result<()> {
        std::future::pending().await
    }
}

impl Socket for NullSocket {
    type ReadHalf = NullRead;
    type WriteHalf = NullWrite;
    fn split(self) -> (NullRead, NullWrite) {
        (NullRead, NullWrite)
    }
}

fn main() {
    let args: Vec<String> = std::env::args().skip(1).collect();
    let threads: usize = args.first().and_then(|s| s.parse().ok()).unwrap_or(3);
    let per: usize = args.get(1).and_then(|s| s.parse().ok()).unwrap_or(3);
    let sequential = args.iter().any(|a| a == "--sequential");
    let mut all: Vec<(usize, usize, usize)> = Vec::new(); // (id, thread, k)
    if sequential {
        // one thread after the other: no interleaving, but each thread has its own thread-locals
        for t in 0..threads {
            let ids = thread::spawn(move || (0..per).map(|k| (Connection::new(NullSocket).id(), t, k)).collect::<Vec<_>>()).join().unwrap();
            all.extend(ids);
        }
    } else {
        let barrier = Arc::new(Barrier::new(threads));
        let handles: Vec<_> = (0..threads)
            .map(|t| {
                let b = barrier.clone();
                thread::spawn(move || {
                    b.wait();
                    let mut ids = Vec::new();
                    for k in 0..per {
                        // connections made through every constructor the API offers
                        let c = if k % 2 == 0 { Connection::new(NullSocket) } else { Connection::from(NullSocket) };
                        let (r, w) = c.split();
                        assert_eq!(r.id(), w.id(), "halves of one connection disagree on its id");
                        let c = Connection::<NullSocket>::join(r, w);
                        ids.push((c.id(), t, k));
                    }
                    ids
                })
            })
            .collect();
        for h in handles {
            all.extend(h.join().unwrap());
        }
    }
    let mut sorted = all.clone();
    sorted.sort();
    for w in sorted.windows(2) {
        if w[0].0 == w[1].0 {
            println!("DUPLICATE id {} handed to connection {} of thread {} and connection {} of thread {}", w[0].0, w[0].2, w[0].1, w[1].2, w[1].1);
            std::process::exit(1);
        }
    }
    println!("ok: {} connections from {} threads, ids pairwise distinct", all.len(), threads);
}
