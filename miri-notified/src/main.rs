//! C20 under *real* concurrency: a setter thread publishes values through one clone of a notified
//! state while subscriber threads poll their streams, so that a `set` can land in the middle of a
//! single `poll_next`. Run under Miri, which owns the thread schedule: one `-Zmiri-seed` is one
//! exactly repeatable interleaving, with preemption possible between any two basic blocks.
//!
//! Checked per subscriber: every item is marked continuing; values are strictly increasing (they are
//! set in increasing order); the stream never ends while a state exists; once the setter is done and
//! the subscriber has drained its stream, the last value it saw is the last value set.
//!
//! usage: znot <tokio|smol> <sets> <subscribers>
//! exit 0 = held; exit 1 = violated (one line starting with VIOLATED).

use futures_util::{task::noop_waker, Stream};
use std::{
    pin::Pin,
    sync::{
        atomic::{AtomicBool, Ordering},
        Arc, Barrier,
    },
    task::{Context, Poll},
    thread,
};

#[derive(Debug, Clone)]
struct V(u64);

trait Backend {
    type State: Send + Clone + 'static;
    type Strm: Stream<Item = zlink_tokio::Reply<V>> + Unpin + Send + 'static;
    fn new() -> Self::State;
    fn stream(s: &Self::State) -> Self::Strm;
    fn set(s: &mut Self::State, v: u64);
}

struct Tokio;
impl Backend for Tokio {
    type State = zlink_tokio::notified::State<V, V>;
    type Strm = zlink_tokio::notified::Stream<V>;
    fn new() -> Self::State {
        zlink_tokio::notified::State::new(V(0))
    }
    fn stream(s: &Self::State) -> Self::Strm {
        s.stream()
    }
    fn set(s: &mut Self::State, v: u64) {
        block_on(s.set(V(v)));
    }
}

struct Smol;
impl Backend for Smol {
    type State = zlink_smol::notified::State<V, V>;
    type Strm = zlink_smol::notified::Stream<V>;
    fn new() -> Self::State {
        zlink_smol::notified::State::new(V(0))
    }
    fn stream(s: &Self::State) -> Self::Strm {
        s.stream()
    }
    fn set(s: &mut Self::State, v: u64) {
        block_on(s.set(V(v)));
    }
}

fn block_on<F: std::future::Future>(f: F) -> F::Output {
    let mut f = std::pin::pin!(f);
    let w = noop_waker();
    let mut cx = Context::from_waker(&w);
    loop {
        if let Poll::Ready(v) = f.as_mut().poll(&mut cx) {
            return v;
        }
        thread::yield_now();
    }
}

fn run<B: Backend>(sets: u64, subs: usize) -> Result<String, String> {
    let state = B::new();
    let streams: Vec<B::Strm> = (0..subs).map(|_| B::stream(&state)).collect();
    let done = Arc::new(AtomicBool::new(false));
    let barrier = Arc::new(Barrier::new(subs + 1));
    let mut setter_state = state.clone();
    let (d2, b2) = (done.clone(), barrier.clone());
    let setter = thread::spawn(move || {
        b2.wait();
        for v in 1..=sets {
            B::set(&mut setter_state, v);
        }
        d2.store(true, Ordering::SeqCst);
        // the clone goes away here; `state` in the main thread keeps the channel alive
    });
    let handles: Vec<_> = streams
        .into_iter()
        .enumerate()
        .map(|(k, mut st)| {
            let (done, b) = (done.clone(), barrier.clone());
            thread::spawn(move || -> Result<u64, String> {
                b.wait();
                let w = noop_waker();
                let mut cx = Context::from_waker(&w);
                let mut last = 0u64;
                let mut polls_after_done = 0;
                loop {
                    let finished = done.load(Ordering::SeqCst);
                    match Pin::new(&mut st).poll_next(&mut cx) {
                        Poll::Ready(Some(r)) => {
                            if r.continues() != Some(true) {
                                return Err(format!("subscriber {k}: an item is not marked continuing"));
                            }
                            let v = r.parameters().map(|p| p.0).unwrap_or(0);
                            if v <= last {
                                return Err(format!("subscriber {k}: value {v} after {last} (not in the order they were set)"));
                            }
                            last = v;
                        }
                        Poll::Ready(None) => return Err(format!("subscriber {k}: the subscription ended after value {last} although the state still exists")),
                        Poll::Pending => {
                            if finished {
                                polls_after_done += 1;
                                if polls_after_done >= 2 {
                                    return Ok(last);
                                }
                            }
                            thread::yield_now();
                        }
                    }
                }
            })
        })
        .collect();
    setter.join().unwrap();
    let mut lasts = Vec::new();
    for (k, h) in handles.into_iter().enumerate() {
        let last = h.join().unwrap()?;
        if last != sets {
            return Err(format!("subscriber {k}: drained its stream after the last set and ended on value {last}, the latest value is {sets}"));
        }
        lasts.push(last);
    }
    drop(state);
    Ok(format!("{subs} subscribers x {sets} sets, each ended on the latest value"))
}

fn main() {
    let args: Vec<String> = std::env::args().skip(1).collect();
    let backend = args.first().map(|s| s.as_str()).unwrap_or("tokio");
    let sets: u64 = args.get(1).and_then(|s| s.parse().ok()).unwrap_or(6);
    let subs: usize = args.get(2).and_then(|s| s.parse().ok()).unwrap_or(1);
    let r = if backend == "smol" { run::<Smol>(sets, subs) } else { run::<Tokio>(sets, subs) };
    match r {
        Ok(m) => println!("ok: {backend}: {m}"),
        Err(m) => {
            println!("VIOLATED {backend}: {m}");
            std::process::exit(1);
        }
    }
}
