//! A global allocator that knows which memory regions safe code is still entitled to read.
//!
//! The C11 harness registers the byte range of every string it holds (borrowed from a received
//! message). If the block containing such a range is freed, moved by `realloc`, or shrunk below
//! the range's end while the range is registered, that fact is recorded — at the moment it
//! happens, without anybody reading the memory afterwards. It is the direct form of "obtaining
//! further replies never frees data of replies already yielded"; the read seam's address
//! bookkeeping only sees reallocations that a *transport read* reveals.
//!
//! It also *poisons*: fresh memory that was not asked to be zeroed is filled with 0xA5, memory that
//! is freed (or cut off by a shrinking `realloc`) with 0xDD, before the system allocator sees it.
//! Code that reads what it never wrote (a `set_len` without initialising, a stale tail taken for
//! data) or reads through a dangling reference then meets bytes that are neither zero nor what was
//! there before, so the mistake shows up in a result instead of going unnoticed because the memory
//! happened to be zero or intact. Blocks above 4 MiB are left alone (cost).
//!
//! Everything here is per thread and allocation-free (the allocator calls into it).

use std::alloc::{GlobalAlloc, Layout, System};
use std::cell::Cell;

const MAX: usize = 256;
const POISON_MAX: usize = 4 << 20;

thread_local! {
    static N: Cell<usize> = const { Cell::new(0) };
    static REGIONS: [Cell<(usize, usize)>; MAX] = const { [const { Cell::new((0, 0)) }; MAX] };
    /// (label of the region, 1 = freed / 2 = block grown by realloc (may move) / 3 = shrunk below it), first event only
    static HIT: Cell<Option<(usize, u8)>> = const { Cell::new(None) };
    /// bumped on every transport read that returned data (set by the read seam)
    static EPOCH: Cell<u64> = const { Cell::new(0) };
    static HIT_EPOCH: Cell<u64> = const { Cell::new(0) };
}

pub struct Watching;

#[inline]
fn check(ptr: usize, size: usize, kind: u8, keep: usize) {
    // `keep` = number of bytes at the start of the block that stay valid (shrinking realloc)
    let n = N.with(|n| n.get());
    if n == 0 {
        return;
    }
    REGIONS.with(|r| {
        for (i, cell) in r.iter().enumerate().take(n) {
            let (p, l) = cell.get();
            if l != 0 && p >= ptr && p < ptr + size && p + l > ptr + keep {
                if HIT.with(|h| h.get()).is_none() {
                    HIT.with(|h| h.set(Some((i, kind))));
                    HIT_EPOCH.with(|e| e.set(EPOCH.with(|x| x.get())));
                }
                return;
            }
        }
    });
}

unsafe impl GlobalAlloc for Watching {
    unsafe fn alloc(&self, layout: Layout) -> *mut u8 {
        let p = System.alloc(layout);
        if !p.is_null() && layout.size() <= POISON_MAX {
            std::ptr::write_bytes(p, 0xA5, layout.size());
        }
        p
    }
    unsafe fn alloc_zeroed(&self, layout: Layout) -> *mut u8 {
        System.alloc_zeroed(layout)
    }
    unsafe fn dealloc(&self, ptr: *mut u8, layout: Layout) {
        check(ptr as usize, layout.size(), 1, 0);
        if layout.size() <= POISON_MAX {
            std::ptr::write_bytes(ptr, 0xDD, layout.size());
        }
        System.dealloc(ptr, layout)
    }
    unsafe fn realloc(&self, ptr: *mut u8, layout: Layout, new_size: usize) -> *mut u8 {
        // Judged by the request, not by where the block ends up: whether a growing `realloc`
        // moves the block is the allocator's business and differs from run to run, whereas
        // "the owner asked for the block to be resized while somebody may still read it" is a
        // fact of the execution.
        if new_size > layout.size() {
            check(ptr as usize, layout.size(), 2, 0);
        } else if new_size < layout.size() {
            check(ptr as usize, layout.size(), 3, new_size);
        }
        if new_size < layout.size() && layout.size() <= POISON_MAX {
            // the tail that is being given back
            std::ptr::write_bytes(ptr.add(new_size), 0xDD, layout.size() - new_size);
        }
        let p = System.realloc(ptr, layout, new_size);
        if !p.is_null() && new_size > layout.size() && new_size <= POISON_MAX {
            // the new tail holds nothing the owner wrote
            std::ptr::write_bytes(p.add(layout.size()), 0xA5, new_size - layout.size());
        }
        p
    }
}

/// Register a held region; returns its slot (or None when the table is full).
pub fn hold(ptr: usize, len: usize) -> Option<usize> {
    let n = N.with(|n| n.get());
    if n >= MAX || len == 0 {
        return None;
    }
    REGIONS.with(|r| r[n].set((ptr, len)));
    N.with(|c| c.set(n + 1));
    Some(n)
}

/// Forget every held region (the values have been dropped).
pub fn release_all() {
    N.with(|n| n.set(0));
}

pub fn reset() {
    release_all();
    HIT.with(|h| h.set(None));
    EPOCH.with(|e| e.set(0));
    HIT_EPOCH.with(|e| e.set(0));
}

/// A transport read returned data (frees that follow are attributed to "a later transport read").
pub fn note_data_read() {
    EPOCH.with(|e| e.set(e.get() + 1));
}

pub fn epoch() -> u64 {
    EPOCH.with(|e| e.get())
}

/// (slot, kind, epoch at which it happened) of the first free / move / shrink of held memory.
pub fn hit() -> Option<(usize, u8, u64)> {
    HIT.with(|h| h.get()).map(|(s, k)| (s, k, HIT_EPOCH.with(|e| e.get())))
}
