//! The clock seam. zlink itself reads no clock on the current tree, but nothing stops a change from
//! starting to (idle timeouts, "release the buffer of a connection that has been quiet for a
//! while", rate limits). So the simulator owns the clock as well: this binary defines
//! `clock_gettime`, which is what `std::time::Instant::now` and `SystemTime::now` end up calling,
//! and adds a per-thread offset to what the kernel reports. The environment advances that offset by
//! tape-chosen amounts (milliseconds to hours) between polls: *clock jumps*. Each run starts and
//! ends with the offset at zero, so the harness's own time budgets see real time.

use std::cell::Cell;

thread_local! {
    static OFFSET_NS: Cell<u64> = const { Cell::new(0) };
}

/// # Safety
/// Same contract as the C library's `clock_gettime`.
#[no_mangle]
pub unsafe extern "C" fn clock_gettime(clk: libc::clockid_t, ts: *mut libc::timespec) -> libc::c_int {
    let r = libc::syscall(libc::SYS_clock_gettime, clk as libc::c_long, ts) as libc::c_int;
    if r == 0 && !ts.is_null() {
        let off = OFFSET_NS.try_with(|o| o.get()).unwrap_or(0);
        if off != 0 && matches!(clk, libc::CLOCK_MONOTONIC | libc::CLOCK_MONOTONIC_RAW | libc::CLOCK_BOOTTIME | libc::CLOCK_REALTIME | libc::CLOCK_MONOTONIC_COARSE | libc::CLOCK_REALTIME_COARSE) {
            let total = (*ts).tv_nsec as u64 + off % 1_000_000_000;
            (*ts).tv_sec += (off / 1_000_000_000) as libc::time_t + (total / 1_000_000_000) as libc::time_t;
            (*ts).tv_nsec = (total % 1_000_000_000) as libc::c_long;
        }
    }
    r
}

/// Advance this thread's clock.
pub fn jump(ns: u64) {
    OFFSET_NS.with(|o| o.set(o.get().saturating_add(ns)));
}

/// Back to the kernel's time (start and end of every run).
pub fn reset() {
    OFFSET_NS.with(|o| o.set(0));
}

pub fn offset_ns() -> u64 {
    OFFSET_NS.with(|o| o.get())
}
