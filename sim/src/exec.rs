//! Single-threaded deterministic executor: the tape decides which woken task runs next and when
//! the environment acts instead.

use crate::world::World;
use std::{
    future::Future,
    pin::Pin,
    sync::{
        atomic::{AtomicBool, Ordering},
        Arc,
    },
    task::{Context, Poll, Wake, Waker},
};

struct Flag {
    woken: AtomicBool,
    /// Generation of the waker handed to the task's most recent poll (fresh-waker mode).
    gen: std::sync::atomic::AtomicU64,
}

/// A waker that belongs to one particular poll of a task. Once the task has been polled again
/// (with a newer waker) this one is stale and waking it does nothing.
struct GenWaker {
    flag: Arc<Flag>,
    gen: u64,
}

impl Wake for GenWaker {
    fn wake(self: Arc<Self>) {
        self.wake_by_ref()
    }
    fn wake_by_ref(self: &Arc<Self>) {
        if self.flag.gen.load(Ordering::Relaxed) == self.gen {
            self.flag.woken.store(true, Ordering::Relaxed);
        }
    }
}

impl Wake for Flag {
    fn wake(self: Arc<Self>) {
        self.woken.store(true, Ordering::Relaxed);
    }
    fn wake_by_ref(self: &Arc<Self>) {
        self.woken.store(true, Ordering::Relaxed);
    }
}

struct Task<'a> {
    fut: Option<Pin<Box<dyn Future<Output = ()> + 'a>>>,
    flag: Arc<Flag>,
    waker: Waker,
    polls: u64,
}

pub struct Exec<'a> {
    tasks: Vec<Task<'a>>,
}

#[derive(Debug, PartialEq, Clone, Copy)]
pub enum End {
    /// Nothing is woken and the environment has nothing left to inject.
    Quiescent,
}

impl<'a> Exec<'a> {
    pub fn new() -> Self {
        Exec { tasks: Vec::new() }
    }

    pub fn spawn(&mut self, fut: impl Future<Output = ()> + 'a) -> usize {
        let flag = Arc::new(Flag { woken: AtomicBool::new(true), gen: std::sync::atomic::AtomicU64::new(0) });
        let waker = Waker::from(flag.clone());
        self.tasks.push(Task { fut: Some(Box::pin(fut)), flag, waker, polls: 0 });
        self.tasks.len() - 1
    }

    pub fn is_done(&self, t: usize) -> bool {
        self.tasks[t].fut.is_none()
    }

    pub fn polls(&self, t: usize) -> u64 {
        self.tasks[t].polls
    }

    /// Run until quiescence. The step cap is enforced by `W::tick` (panics with a marker that the
    /// runner turns into a livelock verdict).
    pub fn run(&mut self, world: &World) -> End {
        // what zlink's log statements do during this run (reset when the run's tasks stop)
        struct LogOff<'w>(&'w World);
        impl Drop for LogOff<'_> {
            fn drop(&mut self) {
                crate::logsub::set_mode(0);
                let (events, bytes) = crate::logsub::take_counts();
                if let Ok(mut w) = self.0.try_borrow_mut() {
                    if events > 0 {
                        w.stat_add("log.events_seen_by_subscriber", events);
                        w.stat_add("log.bytes_formatted", bytes);
                    }
                }
            }
        }
        crate::logsub::set_mode(world.borrow().cfg.log);
        let _log_off = LogOff(world);
        if world.borrow().cfg.fresh_wakers {
            world.borrow_mut().stat("buggify.fresh_waker_for_every_poll_stale_ones_dead");
        }
        let mut woken: Vec<usize> = Vec::new();
        loop {
            woken.clear();
            for (i, t) in self.tasks.iter().enumerate() {
                if t.fut.is_some() && t.flag.woken.load(Ordering::Relaxed) {
                    woken.push(i);
                }
            }
            let idle = woken.is_empty();
            let pick: Option<usize> = {
                let mut w = world.borrow_mut();
                w.tick_at("executor loop");
                if w.cfg.clock_jumps && w.tape.chance(1, 6) {
                    // time passes: a little or a lot
                    let ns: u64 = [1_000_000, 1_000_000_000, 31_000_000_000, 601_000_000_000, 10_800_000_000_000][w.tape.draw(5)];
                    crate::clock::jump(ns);
                    w.stat("env.clock_jump");
                    w.ev("clock.jump", ns / 1_000_000, 0);
                }
                let env_n = w.env_count(idle);
                if idle && env_n == 0 {
                    return End::Quiescent;
                }
                let do_env = if env_n == 0 {
                    false
                } else if idle {
                    true
                } else {
                    match w.cfg.bias {
                        0 => w.tape.draw(4) < 3,
                        1 => w.tape.draw(2) < 1,
                        2 => w.tape.draw(4) < 1,
                        // 3: strictly task-first (the environment acts only when all are parked)
                        _ => false,
                    }
                };
                if do_env {
                    w.env_step(idle);
                    None
                } else if w.cfg.spurious_poll && w.tape.chance(1, 16) {
                    let live: Vec<usize> =
                        (0..self.tasks.len()).filter(|i| self.tasks[*i].fut.is_some()).collect();
                    let k = w.tape.draw(live.len());
                    w.stat("buggify.spurious_poll");
                    w.nontrivial = true;
                    Some(live[k])
                } else {
                    let k = if woken.len() == 1 { 0 } else { w.tape.draw(woken.len()) };
                    Some(woken[k])
                }
            };
            if let Some(i) = pick {
                {
                    let mut w = world.borrow_mut();
                    w.cancelled_this_poll = false;
                    w.ev("poll", i as u64, 0);
                }
                let t = &mut self.tasks[i];
                t.flag.woken.store(false, Ordering::Relaxed);
                t.polls += 1;
                let fresh;
                let waker = if world.borrow().cfg.fresh_wakers {
                    let gen = t.flag.gen.fetch_add(1, Ordering::Relaxed) + 1;
                    fresh = Waker::from(Arc::new(GenWaker { flag: t.flag.clone(), gen }));
                    &fresh
                } else {
                    &t.waker
                };
                let mut cx = Context::from_waker(waker);
                let r = t.fut.as_mut().unwrap().as_mut().poll(&mut cx);
                if let Poll::Ready(()) = r {
                    t.fut = None;
                    world.borrow_mut().ev("task.done", i as u64, 0);
                }
            }
        }
    }

    /// Drop a task's future (cancellation from outside).
    pub fn kill(&mut self, t: usize) {
        self.tasks[t].fut = None;
    }
}
