//! Target types, frame generators and the reference decoder shared by C01 / C07 (and reused by
//! the chain and server scenarios).

use crate::{
    tape::Tape,
    world::{cancellable, SimReadHalf, SimSocket, World},
};
use futures_util::{pin_mut, StreamExt};
use serde::{Deserialize, Serialize};
use zlink_core::{connection::ReadConnection, varlink_service, Call, Connection, Reply, ReplyError};

#[derive(Debug, Serialize, Deserialize, PartialEq)]
#[serde(tag = "method", content = "parameters")]
pub enum MethA<'a> {
    #[serde(rename = "org.example.Echo")]
    Echo {
        #[serde(borrow)]
        text: &'a str,
        n: u32,
    },
    #[serde(rename = "org.example.Ping")]
    Ping,
}

/// A strict struct used as a call type (a bare method object).
#[derive(Debug, Serialize, Deserialize, PartialEq)]
#[serde(deny_unknown_fields)]
pub struct MethStrict {
    pub method: String,
    pub parameters: StrictParams,
}

#[derive(Debug, Serialize, Deserialize, PartialEq)]
#[serde(deny_unknown_fields)]
pub struct StrictParams {
    pub a: i64,
    pub pad: String,
}

#[derive(Debug, Deserialize, Serialize, PartialEq)]
pub struct OptParams<'a> {
    #[serde(borrow)]
    pub name: Option<&'a str>,
    pub count: Option<u32>,
}

#[derive(Debug, Deserialize, Serialize, PartialEq)]
#[serde(deny_unknown_fields)]
pub struct StrictReply {
    pub id: u32,
    pub pad: String,
}

#[derive(Debug, ReplyError, PartialEq)]
#[zlink(interface = "org.example", crate = "zlink_core")]
pub enum ErrA {
    NotFound,
    Bad { code: i32, why: String },
}

/// A call type whose field is filled through `deserialize_bytes` (serde's `&[u8]`): zero-copy from
/// the text of a JSON string, through a different entry point of the JSON deserializer than `&str`.
#[derive(Debug, Deserialize, PartialEq)]
#[serde(tag = "method", content = "parameters")]
pub enum MethBytes<'a> {
    #[serde(rename = "org.example.Put")]
    Put {
        #[serde(borrow)]
        blob: &'a [u8],
        n: u32,
    },
    #[serde(rename = "org.example.Ping")]
    Ping,
}

/// A reply type that owns and borrows at once (it has drop glue and still points into the buffer).
#[derive(Debug, Deserialize, PartialEq)]
pub struct MixedReply<'a> {
    #[serde(borrow)]
    pub names: Vec<&'a str>,
    #[serde(borrow, default)]
    pub blob: Option<&'a [u8]>,
    #[serde(borrow, default)]
    pub note: Option<std::borrow::Cow<'a, str>>,
}

/// An error type with a lifetime: borrows and owns.
#[derive(Debug, ReplyError, PartialEq)]
#[zlink(interface = "org.example", crate = "zlink_core")]
pub enum ErrB<'a> {
    Gone { what: &'a str, tags: Vec<String> },
    NotFound,
}

pub const N_KINDS: usize = 9;
pub const KIND_NAMES: [&str; N_KINDS] = [
    "receive_call<enum with borrowed str>",
    "receive_call<strict struct>",
    "receive_call<varlink_service::Method>",
    "receive_reply<(), ErrA>",
    "receive_reply<OptParams, ErrA>",
    "receive_reply<StrictReply, ErrA>",
    "receive_call<enum with borrowed bytes>",
    "receive_call<serde_json::Value>",
    "receive_reply<MixedReply (Vec<&str>, &[u8], Cow), ErrB<'a>>",
];

/// Target kinds that are replies (receivable through a chain's reply stream as well).
pub fn is_reply_kind(kind: usize) -> bool {
    matches!(kind, 3 | 4 | 5 | 8)
}
pub const REPLY_KINDS: [usize; 4] = [3, 4, 5, 8];

/// Normalised result of one receive.
#[derive(Debug, Clone, PartialEq)]
pub enum Res {
    Ok(String),
    ErrJson,
    ErrEof,
    ErrOverflow,
    ErrOther(String),
}

fn norm_err(e: zlink_core::Error) -> Res {
    match e {
        zlink_core::Error::Json(_) => Res::ErrJson,
        zlink_core::Error::UnexpectedEof => Res::ErrEof,
        zlink_core::Error::BufferOverflow => Res::ErrOverflow,
        zlink_core::Error::VarlinkService(e) => Res::Ok(format!("Varlink({e:?})")),
        other => Res::ErrOther(format!("{other:?}")),
    }
}

fn norm_reply<P: std::fmt::Debug, E: std::fmt::Debug>(
    r: zlink_core::Result<zlink_core::reply::Result<P, E>>,
) -> Res {
    match r {
        Ok(Ok(reply)) => Res::Ok(format!("Reply({reply:?})")),
        Ok(Err(e)) => Res::Ok(format!("MethodErr({e:?})")),
        Err(e) => norm_err(e),
    }
}

/// One receive on the real zlink connection, for target-type kind `kind`.
pub async fn recv_kind(conn: &mut Connection<SimSocket>, kind: usize) -> Res {
    match kind {
        0 => match conn.receive_call::<MethA<'_>>().await {
            Ok(c) => Res::Ok(format!("{c:?}")),
            Err(e) => norm_err(e),
        },
        1 => match conn.receive_call::<MethStrict>().await {
            Ok(c) => Res::Ok(format!("{c:?}")),
            Err(e) => norm_err(e),
        },
        2 => match conn.receive_call::<varlink_service::Method<'_>>().await {
            Ok(c) => Res::Ok(format!("{c:?}")),
            Err(e) => norm_err(e),
        },
        3 => norm_reply(conn.receive_reply::<(), ErrA>().await),
        4 => norm_reply(conn.receive_reply::<OptParams<'_>, ErrA>().await),
        5 => norm_reply(conn.receive_reply::<StrictReply, ErrA>().await),
        6 => match conn.receive_call::<MethBytes<'_>>().await {
            Ok(c) => Res::Ok(format!("{c:?}")),
            Err(e) => norm_err(e),
        },
        7 => match conn.receive_call::<serde_json::Value>().await {
            Ok(c) => Res::Ok(format!("{c:?}")),
            Err(e) => norm_err(e),
        },
        _ => norm_reply(conn.receive_reply::<MixedReply<'_>, ErrB<'_>>().await),
    }
}

/// The same receive, issued on the read half itself (`Connection::read_mut()` or a split-off
/// `ReadConnection`) instead of through `Connection`'s forwarding methods.
pub async fn recv_kind_read(rc: &mut ReadConnection<SimReadHalf>, kind: usize) -> Res {
    match kind {
        0 => match rc.receive_call::<MethA<'_>>().await {
            Ok(c) => Res::Ok(format!("{c:?}")),
            Err(e) => norm_err(e),
        },
        1 => match rc.receive_call::<MethStrict>().await {
            Ok(c) => Res::Ok(format!("{c:?}")),
            Err(e) => norm_err(e),
        },
        2 => match rc.receive_call::<varlink_service::Method<'_>>().await {
            Ok(c) => Res::Ok(format!("{c:?}")),
            Err(e) => norm_err(e),
        },
        3 => norm_reply(rc.receive_reply::<(), ErrA>().await),
        4 => norm_reply(rc.receive_reply::<OptParams<'_>, ErrA>().await),
        5 => norm_reply(rc.receive_reply::<StrictReply, ErrA>().await),
        6 => match rc.receive_call::<MethBytes<'_>>().await {
            Ok(c) => Res::Ok(format!("{c:?}")),
            Err(e) => norm_err(e),
        },
        7 => match rc.receive_call::<serde_json::Value>().await {
            Ok(c) => Res::Ok(format!("{c:?}")),
            Err(e) => norm_err(e),
        },
        _ => norm_reply(rc.receive_reply::<MixedReply<'_>, ErrB<'_>>().await),
    }
}

async fn chain_inner<'c, P, E>(world: &World, conn: &'c mut Connection<SimSocket>, calls: usize, max_items: usize, cancel: bool, out: &mut Vec<Res>) -> bool
where
    P: Deserialize<'c> + std::fmt::Debug + 'c,
    E: Deserialize<'c> + std::fmt::Debug + 'c,
{
    let call = Call::new(MethA::Ping);
    let mut chain = conn.chain_call::<_, P, E>(&call).expect("enqueue of a small call");
    for _ in 1..calls {
        chain = chain.append(&call).expect("enqueue of a small call");
    }
    // the calls go to a sink; abandoning a *send* is C19's subject, so it is awaited
    let stream = chain.send().await.expect("write to a sink");
    pin_mut!(stream);
    while out.len() < max_items {
        let next = stream.next();
        let item = if cancel {
            match cancellable(world, next).await {
                Some(i) => i,
                // abandoned: returning drops the stream and with it the pending receive
                None => return true,
            }
        } else {
            next.await
        };
        match item {
            Some(it) => out.push(norm_reply(it)),
            None => break,
        }
    }
    false
}

/// Receive replies of kind 3..=5 through a chain of `calls` plain calls and its reply stream:
/// up to `max_items` results (the stream may end earlier: it counts final replies and stops at a
/// connection-level error). Returns true if the pending `next()` was abandoned.
pub async fn recv_via_chain(world: &World, conn: &mut Connection<SimSocket>, kind: usize, calls: usize, max_items: usize, cancel: bool, out: &mut Vec<Res>) -> bool {
    match kind {
        3 => chain_inner::<(), ErrA>(world, conn, calls, max_items, cancel, out).await,
        4 => chain_inner::<OptParams<'_>, ErrA>(world, conn, calls, max_items, cancel, out).await,
        5 => chain_inner::<StrictReply, ErrA>(world, conn, calls, max_items, cancel, out).await,
        _ => chain_inner::<MixedReply<'_>, ErrB<'_>>(world, conn, calls, max_items, cancel, out).await,
    }
}

/// Same three-way classification as the connection applies, written down independently.
#[derive(Debug, Deserialize)]
#[serde(untagged)]
enum RefReplyMsg<P, E> {
    Varlink(varlink_service::Error),
    Error(E),
    Reply(Reply<P>),
}

fn ref_reply<'a, P, E>(frame: &'a [u8]) -> Res
where
    P: Deserialize<'a> + std::fmt::Debug,
    E: Deserialize<'a> + std::fmt::Debug,
{
    match serde_json::from_slice::<RefReplyMsg<P, E>>(frame) {
        Ok(RefReplyMsg::Varlink(e)) => Res::Ok(format!("Varlink({e:?})")),
        Ok(RefReplyMsg::Error(e)) => Res::Ok(format!("MethodErr({e:?})")),
        Ok(RefReplyMsg::Reply(r)) => Res::Ok(format!("Reply({r:?})")),
        Err(_) => Res::ErrJson,
    }
}

/// Reference decode of exactly one frame.
pub fn ref_kind(frame: &[u8], kind: usize) -> Res {
    match kind {
        0 => match serde_json::from_slice::<Call<MethA<'_>>>(frame) {
            Ok(c) => Res::Ok(format!("{c:?}")),
            Err(_) => Res::ErrJson,
        },
        1 => match serde_json::from_slice::<Call<MethStrict>>(frame) {
            Ok(c) => Res::Ok(format!("{c:?}")),
            Err(_) => Res::ErrJson,
        },
        2 => match serde_json::from_slice::<Call<varlink_service::Method<'_>>>(frame) {
            Ok(c) => Res::Ok(format!("{c:?}")),
            Err(_) => Res::ErrJson,
        },
        3 => ref_reply::<(), ErrA>(frame),
        4 => ref_reply::<OptParams<'_>, ErrA>(frame),
        5 => ref_reply::<StrictReply, ErrA>(frame),
        6 => match serde_json::from_slice::<Call<MethBytes<'_>>>(frame) {
            Ok(c) => Res::Ok(format!("{c:?}")),
            Err(_) => Res::ErrJson,
        },
        7 => match serde_json::from_slice::<Call<serde_json::Value>>(frame) {
            Ok(c) => Res::Ok(format!("{c:?}")),
            Err(_) => Res::ErrJson,
        },
        _ => ref_reply::<MixedReply<'_>, ErrB<'_>>(frame),
    }
}

/// Characters whose UTF-8 encodings cover the corner bytes: every lead-byte class, continuation
/// bytes 0x80 and 0xBF, the first and last scalar of each encoded length.
const MULTIBYTE: [char; 14] = ['\u{80}', '\u{c0}', '\u{ff}', '\u{7ff}', '\u{800}', '\u{2013}', '\u{201c}', '\u{20ac}', '\u{ffff}', '\u{10000}', '\u{1f600}', '\u{10ffff}', '\u{440}', '\u{65e5}'];

/// JSON escape sequences as they appear on the wire (a peer may escape anything).
const ESCAPES: [&str; 10] = ["\\n", "\\\"", "\\\\", "\\/", "\\u00e9", "\\u0000", "\\ud83d\\ude00", "\\t", "\\u2013", "\\b"];

fn pad(n: usize, salt: usize) -> String {
    // Wire text of a string's content, exactly `n` bytes long. Four styles by salt: printable
    // ASCII; ASCII with a three-byte character now and then; dense multi-byte characters; JSON
    // escape sequences (which a zero-copy `&str` target cannot take — the reference decode says so
    // too — and an owned `String` target can).
    let mut s = String::with_capacity(n + 4);
    let alphabet = b"abcdefghijklmnopqrstuvwxyz0123456789-_ ";
    let mut i = 0;
    while s.len() < n {
        let left = n - s.len();
        match salt % 7 {
            4 if i % 7 == 3 && left >= 3 => s.push('\u{20ac}'), // 3 bytes
            5 if i % 2 == 1 => {
                let c = MULTIBYTE[(i / 2 + salt) % MULTIBYTE.len()];
                if c.len_utf8() <= left {
                    s.push(c);
                } else {
                    s.push('x');
                }
            }
            6 if i % 3 == 2 => {
                let e = ESCAPES[(i / 3 + salt) % ESCAPES.len()];
                if e.len() <= left {
                    s.push_str(e);
                } else {
                    s.push('y');
                }
            }
            _ => s.push(alphabet[(i * 7 + salt) % alphabet.len()] as char),
        }
        i += 1;
    }
    s
}

/// A frame that is valid for `kind`, with a padding string of `padlen` bytes.
pub fn valid_frame(kind: usize, variant: usize, padlen: usize, salt: usize) -> Vec<u8> {
    let p = pad(padlen, salt);
    let s = match kind {
        0 => match variant % 4 {
            0 => format!(r#"{{"method":"org.example.Echo","parameters":{{"text":"{p}","n":{salt}}}}}"#),
            1 => format!(r#"{{"parameters":{{"n":{salt},"text":"{p}"}},"method":"org.example.Echo","oneway":true}}"#),
            2 => format!(r#"{{"method":"org.example.Echo","more":true,"parameters":{{"text":"{p}","n":7}}}}"#),
            _ => r#"{"method":"org.example.Ping"}"#.to_string(),
        },
        1 => match variant % 2 {
            0 => format!(r#"{{"method":"org.example.S","parameters":{{"a":-{salt},"pad":"{p}"}}}}"#),
            _ => format!(r#"{{"method":"x","parameters":{{"pad":"{p}","a":{salt}}},"oneway":false}}"#),
        },
        2 => match variant % 2 {
            0 => r#"{"method":"org.varlink.service.GetInfo"}"#.to_string(),
            _ => format!(r#"{{"method":"org.varlink.service.GetInterfaceDescription","parameters":{{"interface":"{p}"}}}}"#),
        },
        3 => match variant % 4 {
            0 => "{}".to_string(),
            1 => r#"{"continues":true}"#.to_string(),
            2 => format!(r#"{{"error":"org.example.Bad","parameters":{{"code":{salt},"why":"{p}"}}}}"#),
            _ => r#"{"error":"org.example.NotFound"}"#.to_string(),
        },
        4 => match variant % 4 {
            0 => format!(r#"{{"parameters":{{"name":"{p}","count":{salt}}}}}"#),
            1 => format!(r#"{{"parameters":{{"name":"{p}"}},"continues":true}}"#),
            2 => format!(r#"{{"error":"org.varlink.service.MethodNotFound","parameters":{{"method":"{p}"}}}}"#),
            _ => r#"{"parameters":{}}"#.to_string(),
        },
        5 => match variant % 3 {
            0 => format!(r#"{{"parameters":{{"id":{salt},"pad":"{p}"}}}}"#),
            1 => format!(r#"{{"continues":false,"parameters":{{"pad":"{p}","id":1}}}}"#),
            _ => format!(r#"{{"error":"org.example.Bad","parameters":{{"why":"{p}","code":-1}}}}"#),
        },
        6 => match variant % 4 {
            0 => format!(r#"{{"method":"org.example.Put","parameters":{{"blob":"{p}","n":{salt}}}}}"#),
            1 => format!(r#"{{"parameters":{{"n":{salt},"blob":"{p}"}},"method":"org.example.Put","oneway":true}}"#),
            2 => format!(r#"{{"method":"org.example.Put","more":true,"parameters":{{"n":7,"blob":"{p}"}}}}"#),
            _ => r#"{"method":"org.example.Ping"}"#.to_string(),
        },
        7 => match variant % 3 {
            0 => format!(r#"{{"method":"org.example.Echo","parameters":{{"text":"{p}","n":{salt}}}}}"#),
            1 => format!(r#"{{"anything":["{p}",{salt},null],"oneway":true,"nested":{{"more":true}}}}"#),
            _ => r#"{}"#.to_string(),
        },
        _ => match variant % 4 {
            0 => format!(r#"{{"parameters":{{"names":["{p}","x{salt}"],"blob":"{p}"}}}}"#),
            1 => format!(r#"{{"parameters":{{"names":[],"note":"{p}"}},"continues":true}}"#),
            2 => format!(r#"{{"error":"org.example.Gone","parameters":{{"what":"{p}","tags":["t{salt}"]}}}}"#),
            _ => r#"{"error":"org.example.NotFound"}"#.to_string(),
        },
    };
    s.into_bytes()
}

pub const CLASS_NAMES: [&str; 4] = ["valid", "wrong-shape", "malformed", "whitespace-padded"];

/// Generate one non-empty, NUL-free frame of the given class for a receive of `kind`.
/// The same document with one member *name* written with a JSON escape (`"\u0065rror"`): legal,
/// and equal to the plain spelling for every conforming decoder.
fn escape_a_member_name(frame: Vec<u8>, which: usize) -> Vec<u8> {
    let names: [(&str, &str); 6] = [
        ("\"error\"", "\"\\u0065rror\""),
        ("\"parameters\"", "\"p\\u0061rameters\""),
        ("\"method\"", "\"m\\u0065thod\""),
        ("\"continues\"", "\"continu\\u0065s\""),
        ("\"oneway\"", "\"on\\u0065way\""),
        ("\"more\"", "\"mor\\u0065\""),
    ];
    let text = match String::from_utf8(frame) {
        Ok(t) => t,
        Err(e) => return e.into_bytes(),
    };
    for k in 0..names.len() {
        let (plain, escaped) = names[(which + k) % names.len()];
        if text.contains(plain) {
            return text.replacen(plain, escaped, 1).into_bytes();
        }
    }
    text.into_bytes()
}

pub fn gen_frame(t: &mut Tape, kind: usize, class: usize, padlen: usize) -> Vec<u8> {
    let variant = t.draw(4);
    let salt = t.draw(50);
    match class {
        0 => {
            let f = valid_frame(kind, variant, padlen, salt);
            // one valid frame in eight spells a member name with an escape
            if salt % 8 == 5 {
                escape_a_member_name(f, variant)
            } else {
                f
            }
        }
        1 => match t.draw(6) {
            // valid JSON, wrong shape for `kind`
            0 => valid_frame((kind + 1 + t.draw(N_KINDS - 1)) % N_KINDS, variant, padlen, salt),
            1 => format!("[1,2,\"{}\"]", pad(padlen, salt)).into_bytes(),
            2 => format!("{}", salt).into_bytes(),
            3 => format!("\"{}\"", pad(padlen, salt)).into_bytes(),
            4 => format!(r#"{{"method":"org.example.Nope","parameters":{{"x":"{}"}}}}"#, pad(padlen, salt)).into_bytes(),
            _ => b"null".to_vec(),
        },
        2 => {
            let base = valid_frame(kind, variant, padlen, salt);
            match t.draw(7) {
                0 => {
                    // truncated
                    let cut = 1 + t.draw(base.len() - 1);
                    base[..cut].to_vec()
                }
                1 => br#"{"method":tru}"#.to_vec(),
                2 => {
                    // invalid UTF-8 inside
                    let mut b = base.clone();
                    let pos = t.draw(b.len());
                    b[pos] = 0xFF;
                    b
                }
                3 => {
                    // document followed by garbage
                    let mut b = base.clone();
                    b.extend_from_slice(b" x");
                    b
                }
                4 => {
                    // two documents in one frame
                    let mut b = base.clone();
                    b.extend_from_slice(&base);
                    b
                }
                5 => b"}{".to_vec(),
                6 if salt % 2 == 0 => {
                    // a valid document with a byte next to it that JSON does *not* count as
                    // whitespace although other definitions do (form feed, vertical tab, NEL, a
                    // no-break space, a byte-order mark, a line separator)
                    const NEAR: [&[u8]; 7] = [b"\x0c", b"\x0b", b"\xc2\x85", b"\xc2\xa0", b"\xef\xbb\xbf", b"\xe2\x80\xa8", b" \x0c "];
                    let extra = NEAR[t.draw(NEAR.len())];
                    let mut b = Vec::new();
                    let lead = t.draw(3) == 0;
                    if lead {
                        b.extend_from_slice(extra);
                    }
                    b.extend_from_slice(&base);
                    if !lead {
                        b.extend_from_slice(extra);
                    }
                    b
                }
                _ => {
                    let mut b = base.clone();
                    b.insert(0, b',');
                    b
                }
            }
        }
        _ => {
            let base = valid_frame(kind, variant, padlen, salt);
            let ws = [b' ', b'\t', b'\n', b'\r'];
            let mode = t.draw(3); // 0 trailing, 1 leading, 2 both
            let mut b = Vec::new();
            if mode >= 1 {
                for _ in 0..1 + t.draw(3) {
                    b.push(ws[t.draw(4)]);
                }
            }
            b.extend_from_slice(&base);
            if mode != 1 {
                for _ in 0..1 + t.draw(3) {
                    b.push(ws[t.draw(4)]);
                }
            }
            b
        }
    }
}

#[derive(Clone, Debug)]
pub struct Script {
    pub kinds: Vec<usize>,
    pub frames: Vec<Vec<u8>>,
}

impl Script {
    pub fn stream(&self) -> Vec<u8> {
        let mut s = Vec::new();
        for f in &self.frames {
            s.extend_from_slice(f);
            s.push(0);
        }
        s
    }

    pub fn expected(&self) -> Vec<Res> {
        self.frames.iter().zip(&self.kinds).map(|(f, k)| ref_kind(f, *k)).collect()
    }

    pub fn describe(&self) -> serde_json::Value {
        serde_json::json!(self
            .frames
            .iter()
            .zip(&self.kinds)
            .map(|(f, k)| {
                let txt = String::from_utf8_lossy(f);
                let short: String = if txt.len() > 90 { format!("{}…({} bytes)", &txt.chars().take(70).collect::<String>(), f.len()) } else { txt.to_string() };
                serde_json::json!({"receive": KIND_NAMES[*k], "frame": short})
            })
            .collect::<Vec<_>>())
    }
}

/// Seeded script: up to `max_frames` frames; sizes steered onto buffer growth steps.
pub fn gen_script(t: &mut Tape, max_frames: usize) -> Script {
    // Scale swarm: most runs stay small (they find most bugs and shrink well); one in sixteen is
    // long (dozens to hundreds of frames on one connection) and one in sixteen carries frames of
    // tens of kilobytes (sizes around 2^15, 2^16 and beyond, and hundreds of growth steps), so
    // that nothing silently depends on counts or sizes staying small.
    let scale = t.draw(16);
    // ... and one long run in sixty-four is *very* long: a little under / over 2^16 tiny frames on
    // one connection (beyond any 16-bit counter or index)
    let wide = scale == 15 && t.draw(64) == 63;
    let max_frames = if scale == 15 { 40 + t.draw(260) } else { max_frames };
    let big = scale == 14;
    let n = if wide { 65_300 + t.draw(500) } else { 1 + t.draw(max_frames) };
    let size_style = if wide { 0 } else if scale == 15 { [0, 1, 3][t.draw(3)] } else { t.draw(4) }; // 0 tiny, 1 around a growth step, 2 medium random, 3 mixed
    let mut kinds = Vec::new();
    let mut frames = Vec::new();
    let mut offset = 0usize;
    for _ in 0..n {
        let kind = t.draw(N_KINDS);
        let class = t.weighted(&[5, 2, 2, 2]);
        let style = if size_style == 3 { t.draw(3) } else { size_style };
        let padlen = match style {
            0 => t.draw(6),
            1 => {
                // Aim the end of this frame (incl. terminator) at -2..=+2 around the next multiple
                // of 256 of the stream offset.
                let base = valid_frame(kind, 0, 0, 7).len() + 1;
                let target = ((offset + base) / 256 + 1 + t.draw(2)) * 256;
                let want = target + t.draw(5) - 2;
                want.saturating_sub(offset + base)
            }
            _ => t.draw(600),
        };
        let padlen = if big && t.draw(3) == 0 {
            match t.draw(4) {
                0 => 32_768 - 80 + t.draw(160),
                1 => 65_536 - 80 + t.draw(160),
                2 => 256 * (40 + t.draw(300)) - 70 + t.draw(140),
                _ => 1_000 + t.draw(90_000),
            }
        } else {
            padlen
        };
        let f = gen_frame(t, kind, class, padlen);
        debug_assert!(!f.is_empty() && !f.contains(&0));
        offset += f.len() + 1;
        if class == 0 && f.len() >= 2 && t.draw(10) == 9 {
            // a NUL in the middle of what would have been a valid document: two frames, each judged
            // on its own (typically two decode errors; never one message made of both)
            let cut = if t.draw(2) == 0 { f.len() - 1 - t.draw((f.len() - 1).min(6)) } else { 1 + t.draw(f.len() - 1) };
            kinds.push(kind);
            frames.push(f[..cut].to_vec());
            kinds.push(kind);
            frames.push(f[cut..].to_vec());
            continue;
        }
        kinds.push(kind);
        frames.push(f);
    }
    Script { kinds, frames }
}

/// Fixed corpus of short streams for the systematic (every cut position) part.
pub fn corpus() -> Vec<Script> {
    let mut out = Vec::new();
    let v = |k: usize, var: usize, pad: usize| valid_frame(k, var, pad, 3);
    let ws = |k: usize, lead: &str, trail: &str| {
        let mut b = lead.as_bytes().to_vec();
        b.extend_from_slice(&valid_frame(k, 3, 0, 3));
        b.extend_from_slice(trail.as_bytes());
        b
    };
    let mut add = |items: Vec<(usize, Vec<u8>)>| {
        out.push(Script { kinds: items.iter().map(|i| i.0).collect(), frames: items.into_iter().map(|i| i.1).collect() });
    };
    // all valid, two and three frames, every kind
    for k in 0..N_KINDS {
        add(vec![(k, v(k, 3, 0)), (k, v(k, 0, 2))]);
        let k2 = [3usize, 4, 5, 0, 1, 2, 8, 3, 6][k];
        add(vec![(k, v(k, 0, 1)), (k2, v(k2, 1, 0)), (k, v(k, 3, 0))]);
    }
    // bad frame first / middle / last, then good ones
    for k in [0usize, 3, 5] {
        add(vec![(k, b"bad".to_vec()), (k, v(k, 3, 0))]);
        add(vec![(k, v(k, 3, 0)), (k, b"{\"x\":".to_vec()), (k, v(k, 0, 1))]);
        add(vec![(k, v(k, 3, 0)), (k, v(k, 0, 0)), (k, b"[1,2]".to_vec())]);
        add(vec![(k, b"}{".to_vec()), (k, b"nul".to_vec()), (k, v(k, 3, 0))]);
        let mut g = v(k, 3, 0);
        g.extend_from_slice(b"x");
        add(vec![(k, g), (k, v(k, 3, 0))]);
    }
    // a document cut in two by a NUL inside a string / right behind it / in front of the closing braces
    for k in [0usize, 6, 8, 5] {
        let doc = v(k, 0, 3);
        let text = String::from_utf8(doc.clone()).unwrap();
        let in_string = text.find("\":\"").map(|p| p + 5).unwrap_or(doc.len() / 2).min(doc.len() - 1);
        for cut in [in_string, doc.len() - 2, doc.len() - 1] {
            add(vec![(k, doc[..cut].to_vec()), (k, doc[cut..].to_vec()), (k, v(k, 3, 0))]);
        }
    }
    // almost-whitespace next to a valid document: a decode error, consuming exactly that frame
    for k in [0usize, 3] {
        add(vec![(k, ws(k, "", "\x0c")), (k, v(k, 3, 0))]);
        add(vec![(k, ws(k, "\u{feff}", "")), (k, v(k, 3, 0))]);
        add(vec![(k, v(k, 3, 0)), (k, ws(k, "", " \x0b"))]);
    }
    // whitespace padding in every position
    for k in [0usize, 3] {
        add(vec![(k, ws(k, "", " ")), (k, v(k, 3, 0))]);
        add(vec![(k, ws(k, "", "  ")), (k, v(k, 3, 0))]);
        add(vec![(k, ws(k, " ", "")), (k, v(k, 3, 0))]);
        add(vec![(k, ws(k, "\n", "\r\n")), (k, ws(k, "\t", "\t")), (k, v(k, 3, 0))]);
        add(vec![(k, v(k, 3, 0)), (k, ws(k, "", " "))]);
        add(vec![(k, b"  ".to_vec()), (k, v(k, 3, 0))]);
    }
    out
}

/// Streams whose frame boundaries sit on the 256-byte growth step (single cuts only).
pub fn boundary_corpus() -> Vec<Script> {
    let mut out = Vec::new();
    for k in [0usize, 5] {
        let base = valid_frame(k, 0, 0, 3).len();
        for total in [254usize, 255, 256, 257] {
            // first frame (with terminator) occupies exactly `total` bytes
            let p = total - 1 - base;
            out.push(Script { kinds: vec![k, k], frames: vec![valid_frame(k, 0, p, 3), valid_frame(k, 0, 1, 3)] });
        }
    }
    out
}

/// Number of streams in the big boundary family (see `big_boundary_stream`).
pub const N_BIG_BOUNDARY: usize = 9 * 5 * 3;

/// Streams whose *total* length sits within two bytes of a multiple of 256 far from the start:
/// 256 x {127, 128, 129, 255, 256, 257, 511, 512, 513} + {-2..=2} bytes (around 2^15, 2^16, 2^17 and
/// one growth step either side), as one frame, as a small frame followed by a big one, and as a big
/// frame followed by a small one. Built on demand (they are up to 131 kB each).
pub fn big_boundary_stream(j: usize) -> Script {
    let j = j % N_BIG_BOUNDARY;
    let m = [127usize, 128, 129, 255, 256, 257, 511, 512, 513][j % 9];
    let d = (j / 9) % 5;
    let shape = j / 45;
    let total = 256 * m + d - 2; // bytes in the stream, terminators included
    let k = 0usize;
    let base = valid_frame(k, 0, 0, 3).len();
    let small = valid_frame(k, 0, 7, 3);
    match shape {
        0 => Script { kinds: vec![k], frames: vec![valid_frame(k, 0, total - 1 - base, 3)] },
        1 => Script { kinds: vec![k, k], frames: vec![small.clone(), valid_frame(k, 0, total - (small.len() + 1) - 1 - base, 3)] },
        _ => Script { kinds: vec![k, k], frames: vec![valid_frame(k, 0, total - (small.len() + 1) - 1 - base, 3), small] },
    }
}

/// Number of streams in the fraction family (see `fraction_stream`).
pub const N_FRACTION: usize = 2 * 2 * 5 * 3;

/// *Fractions of an earlier buffer size.* A first frame of 1.1 or 4.3 MiB makes the receive buffer
/// grow to some length L and is consumed; a second long frame is then interrupted (transient
/// failure, or an abandoned receive) after exactly L/16, L/8, L/4, L/2 or 3L/4 bytes, give or take one -
/// the offsets at which housekeeping that resizes a buffer "to a quarter", "to half" and the like
/// has its boundary cases. Returns the script, the stream offset at which the first frame ends
/// (incl. its terminator) and the number of bytes of the second frame in front of the interruption.
pub fn fraction_stream(j: usize) -> (Script, usize, usize) {
    let j = j % N_FRACTION;
    let s1 = [1_100_000usize, 4_300_037][j % 2];
    let l_extra = [0usize, 256][(j / 2) % 2];
    let (num, den) = [(1usize, 16usize), (1, 8), (1, 4), (1, 2), (3, 4)][(j / 4) % 5];
    let d = (j / 20) % 3; // 0: one less, 1: exact, 2: one more
    let base = valid_frame(0, 0, 0, 0).len();
    let f1 = valid_frame(0, 0, s1 - base, 0);
    // the reader grows its buffer by 256 whenever a read fills it
    let l = ((f1.len() + 1) / 256 + 1) * 256 + l_extra;
    let off = l * num / den + d - 1;
    let f2 = valid_frame(0, 0, off + 3_000 - base, 1);
    let f3 = valid_frame(0, 3, 0, 2);
    let f1_end = f1.len() + 1;
    (Script { kinds: vec![0, 0, 0], frames: vec![f1, f2, f3] }, f1_end, off)
}
