//! A `tracing` subscriber for the simulator. zlink's log statements are code too: their arguments
//! are only evaluated (and their `Debug` impls only run) when a subscriber enables the level, so a
//! deployment with logging on executes code that a silent test process never does. The per-run knob
//! `Cfg::log` decides what is enabled while a run's tasks execute:
//! 0 nothing, 1 WARN and above, 2 everything (arguments evaluated), 3 everything and every field
//! formatted into a discarding sink.

use std::cell::Cell;
use std::fmt::{self, Write};
use tracing::{
    field::{Field, Visit},
    span, Event, Level, Metadata, Subscriber,
};

thread_local! {
    static MODE: Cell<u8> = const { Cell::new(0) };
    static FORMATTED: Cell<u64> = const { Cell::new(0) };
    static EVENTS: Cell<u64> = const { Cell::new(0) };
}

pub fn set_mode(m: u8) {
    MODE.with(|c| c.set(m));
}

/// (events seen, bytes formatted) on this thread since the last call.
pub fn take_counts() -> (u64, u64) {
    (EVENTS.with(|c| c.replace(0)), FORMATTED.with(|c| c.replace(0)))
}

struct Count(u64);

impl Write for Count {
    fn write_str(&mut self, s: &str) -> fmt::Result {
        self.0 += s.len() as u64;
        Ok(())
    }
}

struct Fmt(u64);

impl Visit for Fmt {
    fn record_debug(&mut self, _field: &Field, value: &dyn fmt::Debug) {
        let mut c = Count(0);
        let _ = write!(c, "{value:?}");
        self.0 += c.0;
    }
}

pub struct SimSubscriber;

impl Subscriber for SimSubscriber {
    fn register_callsite(&self, _: &'static Metadata<'static>) -> tracing::subscriber::Interest {
        // ask `enabled` every time: the answer changes from run to run
        tracing::subscriber::Interest::sometimes()
    }
    fn enabled(&self, m: &Metadata<'_>) -> bool {
        match MODE.with(|c| c.get()) {
            0 => false,
            1 => *m.level() <= Level::WARN,
            _ => true,
        }
    }
    fn new_span(&self, _: &span::Attributes<'_>) -> span::Id {
        span::Id::from_u64(1)
    }
    fn record(&self, _: &span::Id, _: &span::Record<'_>) {}
    fn record_follows_from(&self, _: &span::Id, _: &span::Id) {}
    fn event(&self, e: &Event<'_>) {
        EVENTS.with(|c| c.set(c.get() + 1));
        if MODE.with(|c| c.get()) >= 3 {
            let mut f = Fmt(0);
            e.record(&mut f);
            FORMATTED.with(|c| c.set(c.get() + f.0));
        }
    }
    fn enter(&self, _: &span::Id) {}
    fn exit(&self, _: &span::Id) {}
}

pub fn install() {
    let _ = tracing::subscriber::set_global_default(SimSubscriber);
}
