mod alloc_watch;
mod clock;
mod exec;
mod frames;
mod logsub;
mod neighbours;
mod props;
mod real_client;
mod runner;
mod server_world;
mod tape;
mod world;

use runner::{Options, Prop, Tier};

#[global_allocator]
static GLOBAL: alloc_watch::Watching = alloc_watch::Watching;

fn prop_by_id(id: &str, thorough: bool) -> Option<Box<dyn Prop>> {
    Some(match id {
        "C01" => Box::new(props::c01::Framing { cancel: false }),
        "C07" => Box::new(props::c01::Framing { cancel: true }),
        "C02" => Box::new(props::c02::Outbound),
        "C06" => Box::new(props::c06::ChainProp { borrowed: false }),
        "C11" => Box::new(props::c06::ChainProp { borrowed: true }),
        "C08" => Box::new(props::c08::ServerProp { kind: props::c08::Kind::C08 }),
        "C09" => Box::new(props::c08::ServerProp { kind: props::c08::Kind::C09 }),
        "C10" => Box::new(props::c08::ServerProp { kind: props::c08::Kind::C10 }),
        "C18" => Box::new(props::c08::ServerProp { kind: props::c08::Kind::C18 }),
        "C20" => Box::new(props::c20::Notified),
        "C17" => Box::new(props::c17::Bounded { production: thorough }),
        "C19" => Box::new(props::c19::EndToEnd { thorough }),
        _ => return None,
    })
}

fn usage() -> ! {
    eprintln!("usage: zsim <ID> <quick|thorough> [--seed N] [--runs N] [--workers N] [--no-evidence]\n       zsim <ID> --replay <file>");
    std::process::exit(2)
}

fn main() {
    let args: Vec<String> = std::env::args().skip(1).collect();
    if args.len() < 2 {
        usage();
    }
    runner::install_panic_hook();
    {
        // the clock seam must be in effect (std's clocks go through this binary's `clock_gettime`)
        let a = std::time::Instant::now();
        let b = std::time::SystemTime::now();
        clock::jump(5_000_000_000);
        let (d1, d2) = (a.elapsed(), b.elapsed().unwrap_or_default());
        clock::reset();
        if d1 < std::time::Duration::from_secs(5) || d2 < std::time::Duration::from_secs(5) {
            eprintln!("HARNESS-ERROR: the simulated clock is not in effect (Instant advanced by {d1:?}, SystemTime by {d2:?} after a 5 s jump)");
            std::process::exit(2);
        }
    }
    logsub::install();
    // A replay file is re-run with the tier it was recorded in (some properties size their
    // scenarios by tier, so the same tape would otherwise describe another scenario).
    let thorough = if args[1] == "--replay" {
        args.get(2)
            .and_then(|p| std::fs::read_to_string(p).ok())
            .and_then(|s| serde_json::from_str::<serde_json::Value>(&s).ok())
            .map(|v| v["tier"].as_str() == Some("thorough"))
            .unwrap_or(false)
    } else {
        args[1] != "quick"
    };
    let prop = match prop_by_id(&args[0], thorough) {
        Some(p) => p,
        None => {
            eprintln!("unknown property {}", args[0]);
            std::process::exit(2)
        }
    };
    if args[1] == "--replay" {
        let path = args.get(2).cloned().unwrap_or_else(|| usage());
        std::process::exit(runner::replay_file(prop.as_ref(), &path));
    }
    let tier = match args[1].as_str() {
        "quick" => Tier::Quick,
        "thorough" => Tier::Thorough,
        _ => usage(),
    };
    let mut opt = Options {
        tier,
        seed: std::env::var("VERIF_SEED").ok().and_then(|s| s.parse().ok()).unwrap_or(20260929),
        workers: std::thread::available_parallelism().map(|n| n.get()).unwrap_or(8),
        runs_override: None,
        write_evidence: true,
        digest: false,
        skip_systematic: false,
        ballast: None,
    };
    let mut explicit_runs = false;
    let mut twin = false;
    let mut i = 2;
    while i < args.len() {
        match args[i].as_str() {
            "--seed" => {
                opt.seed = args[i + 1].parse().expect("seed");
                i += 1;
            }
            "--runs" => {
                opt.runs_override = Some(args[i + 1].parse().expect("runs"));
                explicit_runs = true;
                i += 1;
            }
            "--workers" => {
                opt.workers = args[i + 1].parse().expect("workers");
                i += 1;
            }
            "--no-evidence" => opt.write_evidence = false,
            "--diff-job" => {
                // debugging aid: run seeded job N twice with traces and show where they diverge
                let n: u64 = args[i + 1].parse().expect("job");
                prop.thread_init();
                let t = |n| tape::Tape::generate(runner::seed_for(opt.seed, prop.id(), n));
                let a = runner::run_one(prop.as_ref(), t(n), true, true);
                let b = runner::run_one(prop.as_ref(), t(n), true, false);
                println!("scenario: {}", serde_json::to_string(&a.sample).unwrap());
                let (ta, tb) = (a.trace.unwrap(), b.trace.unwrap());
                println!("lens {} {} fail {:?} {:?}", ta.len(), tb.len(), a.fail, b.fail);
                for (k, (x, y)) in ta.iter().zip(tb.iter()).enumerate() {
                    if x != y {
                        for l in ta[k.saturating_sub(12)..(k + 4).min(ta.len())].iter() { println!("A {l}"); }
                        for l in tb[k.saturating_sub(3)..(k + 4).min(tb.len())].iter() { println!("B {l}"); }
                        break;
                    }
                }
                std::process::exit(0);
            }
            "--digest" => opt.digest = true,
            "--twin" => twin = true,
            _ => usage(),
        }
        i += 1;
    }
    if twin {
        // The optimised-build pass (`sim/target/fast/zsim`, no debug assertions, no overflow checks):
        // the systematic part and a quarter of the seeded runs under a different seed; its summary is
        // added to the evidence file the main pass has just written.
        let n = opt.runs_override.unwrap_or_else(|| (prop.random_runs(tier) / 4).max(1));
        let topt = Options { tier, seed: opt.seed ^ 0x0f57_b111d, workers: opt.workers, runs_override: Some(n), write_evidence: false, digest: opt.digest, skip_systematic: false, ballast: None };
        let t0 = std::time::Instant::now();
        let rc = runner::run_batch(prop.as_ref(), &topt);
        if opt.write_evidence {
            runner::patch_evidence_with_twin(prop.id(), rc, n, t0.elapsed().as_secs_f64());
        }
        std::process::exit(rc);
    }
    // Pressure pass: a slice of seeded runs executed while one more connection, whose receive buffer
    // has grown to tens of MiB, is alive in this process (one for the whole pass, so that every run
    // sees the same process-wide state and replays exactly).
    let n_pressure = prop.pressure_runs(tier);
    if n_pressure > 0 && !explicit_runs && !opt.digest {
        let bytes = (64usize << 20) + 4096 + (opt.seed % 1000) as usize * 4096;
        let ballast = neighbours::ballast(bytes);
        runner::UNDER_BALLAST.store(true, std::sync::atomic::Ordering::Relaxed);
        let popt = Options { tier, seed: opt.seed ^ 0x5eed_ba11, workers: opt.workers, runs_override: Some(n_pressure), write_evidence: false, digest: false, skip_systematic: true, ballast: Some(bytes) };
        let t0 = std::time::Instant::now();
        let rc = runner::run_batch(prop.as_ref(), &popt);
        runner::UNDER_BALLAST.store(false, std::sync::atomic::Ordering::Relaxed);
        drop(ballast);
        if rc != 0 {
            std::process::exit(rc);
        }
        *runner::PRESSURE_SUMMARY.lock().unwrap() = Some(serde_json::json!({
            "what": "seeded runs executed while a connection whose receive buffer holds this many bytes is alive in the same process",
            "ballast_bytes": bytes, "runs": n_pressure, "violations": 0, "wall_s": t0.elapsed().as_secs_f64(),
        }));
    }
    std::process::exit(runner::run_batch(prop.as_ref(), &opt));
}
