//! Other zlink objects living next to the one under test, in the same thread and process.
//!
//! A connection is supposed to be independent of every other connection. Whether it is depends on
//! what the library shares behind the scenes (statics, thread-locals, pooled buffers, counters,
//! process-wide accounting), and that only shows when a *second* object does something at the
//! right moment. Two kinds of neighbour:
//!
//! * `Ballast`: a live connection whose receive buffer has grown to tens of MiB (it received one
//!   huge frame over a trivial always-ready socket). It does nothing afterwards; it only exists.
//! * `spawn_second_connection`: a second scripted connection on the simulated wire whose receives
//!   (and a few sends) are interleaved with the first one's by the executor. Its own results are
//!   checked against its own reference, so it doubles as a check of the neighbour's integrity.

use crate::{
    exec::Exec,
    frames::{self, Res},
    world::{World, W},
};
use std::{cell::RefCell, rc::Rc};
use zlink_core::{
    connection::socket::{ReadHalf, Socket, WriteHalf},
    Connection,
};

#[derive(Debug)]
pub struct BallastSocket {
    left: usize,
}
#[derive(Debug)]
pub struct BallastRead {
    left: usize,
}
#[derive(Debug)]
pub struct BallastWrite;

impl Socket for BallastSocket {
    type ReadHalf = BallastRead;
    type WriteHalf = BallastWrite;
    fn split(self) -> (BallastRead, BallastWrite) {
        (BallastRead { left: self.left }, BallastWrite)
    }
}

impl ReadHalf for BallastRead {
    /// One frame: blanks, `{}` and the terminator; then end of stream.
    async fn read(&mut self, buf: &mut [u8]) -> zlink_core::Result<usize> {
        let n = buf.len().min(self.left);
        for (i, b) in buf[..n].iter_mut().enumerate() {
            let remaining = self.left - i;
            *b = match remaining {
                3 => b'{',
                2 => b'}',
                1 => 0,
                _ => b' ',
            };
        }
        self.left -= n;
        Ok(n)
    }
}

impl WriteHalf for BallastWrite {
    async fn write(&mut self, _buf: &[u8]) -> zlink_core::Result<()> {
        Ok(())
    }
}

pub struct Ballast {
    _conn: Connection<BallastSocket>,
}

#[derive(Debug, serde::Deserialize)]
struct Nothing {}

/// A connection that has received one frame of `bytes` bytes and is kept alive by the caller.
pub fn ballast(bytes: usize) -> Ballast {
    let mut conn = Connection::new(BallastSocket { left: bytes.max(8) });
    {
        let fut = conn.receive_call::<Nothing>();
        futures_util::pin_mut!(fut);
        let waker = futures_util::task::noop_waker();
        let mut cx = std::task::Context::from_waker(&waker);
        // the socket is always ready: one poll
        let _ = fut.as_mut().poll(&mut cx);
    }
    Ballast { _conn: conn }
}

use std::future::Future;

/// What the second connection found out about itself.
#[derive(Default)]
pub struct SecondResult {
    pub got: Vec<Res>,
    pub expected: Vec<Res>,
    pub finished: bool,
}

/// Spawn a second, unrelated connection: its own scripted peer stream (1..6 frames, generated from
/// the tape), received frame by frame with a small send now and then.
pub fn spawn_second_connection<'a>(ex: &mut Exec<'a>, world: &World) -> Rc<RefCell<SecondResult>> {
    let res: Rc<RefCell<SecondResult>> = Rc::new(RefCell::new(SecondResult::default()));
    let (rd, wr, kinds, n, stays) = {
        let mut w = world.borrow_mut();
        let script = frames::gen_script(&mut w.tape, 6);
        let stream = script.stream();
        let rd = w.scripted_pipe(&stream, true);
        let wr = w.sink_pipe();
        w.step_cap += 50 * (stream.len() as u64 + 200);
        w.stat("runs_with_a_second_connection_in_the_same_thread");
        res.borrow_mut().expected = script.expected();
        (rd, wr, script.kinds.clone(), script.frames.len(), w.tape.draw(2) == 1)
    };
    let world2 = world.clone();
    let res2 = res.clone();
    ex.spawn(async move {
        let mut conn = Connection::new(W::socket(&world2, rd, wr));
        for i in 0..n {
            let op = world2.borrow_mut().tape.draw(4);
            match op {
                1 => {
                    let len = world2.borrow_mut().tape.draw(400);
                    let _ = conn.send_call(&zlink_core::Call::new(Note { method: "org.example.Note", parameters: NoteP { text: "n".repeat(len) } })).await;
                }
                2 => {
                    let (r, w) = conn.split();
                    conn = Connection::join(r, w);
                }
                _ => {}
            }
            let r = frames::recv_kind(&mut conn, kinds[i]).await;
            res2.borrow_mut().got.push(r);
        }
        res2.borrow_mut().finished = true;
        if stays {
            // the connection stays alive until the executor is dropped with everything else
            std::future::pending::<()>().await;
        }
        // (otherwise it is dropped here, while the first connection may still be busy)
    });
    res
}

#[derive(Debug, serde::Serialize)]
struct Note {
    method: &'static str,
    parameters: NoteP,
}
#[derive(Debug, serde::Serialize)]
struct NoteP {
    text: String,
}

/// Verdict on the second connection (None = fine).
pub fn judge_second(id: &str, r: &SecondResult) -> Option<(String, String)> {
    for (i, want) in r.expected.iter().enumerate() {
        match r.got.get(i) {
            Some(g) if g == want => {}
            Some(g) => return Some((format!("{id}/second-connection-result-mismatch"), format!("the second connection's frame {i}: expected {want:?}, got {g:?}"))),
            None => return Some((format!("{id}/second-connection-missing-result"), format!("the second connection delivered only {} of its {} frames", r.got.len(), r.expected.len()))),
        }
    }
    None
}
