//! Other zlink objects living next to the one under test, in the same thread and process.
//!
//! A connection is supposed to be independent of every other connection. Whether it is depends on
//! what the library shares behind the scenes (statics, thread-locals, pooled buffers, counters,
//! process-wide accounting), and that only shows when a *second* object does something at the
//! right moment. Two kinds of neighbour:
//!
//! * `Ballast`: a live connection whose receive buffer has grown to tens of MiB (it received one
//!   huge frame over a trivial always-ready socket). It does nothing afterwards; it only exists.
//! * `spawn_second_connection`: a second scripted connection on the simulated wire whose receives
//!   (and a few sends) are interleaved with the first one's by the executor. Its own results are
//!   checked against its own reference, so it doubles as a check of the neighbour's integrity.

use crate::{
    exec::Exec,
    frames::{self, Res},
    world::{World, W},
};
use std::{cell::RefCell, rc::Rc};
use zlink_core::{
    connection::socket::{ReadHalf, Socket, WriteHalf},
    Connection,
};

#[derive(Debug)]
pub struct BallastSocket {
    left: usize,
}
#[derive(Debug)]
pub struct BallastRead {
    left: usize,
}
#[derive(Debug)]
pub struct BallastWrite;

impl Socket for BallastSocket {
    type ReadHalf = BallastRead;
    type WriteHalf = BallastWrite;
    fn split(self) -> (BallastRead, BallastWrite) {
        (BallastRead { left: self.left }, BallastWrite)
    }
}

impl ReadHalf for BallastRead {
    /// One frame: blanks, `{}` and the terminator; then end of stream.
    async fn read(&mut self, buf: &mut [u8]) -> zlink_core::Result<usize> {
        let n = buf.len().min(self.left);
        for (i, b) in buf[..n].iter_mut().enumerate() {
            let remaining = self.left - i;
            *b = match remaining {
                3 => b'{',
                2 => b'}',
                1 => 0,
                _ => b' ',
            };
        }
        self.left -= n;
        Ok(n)
    }
}

impl WriteHalf for BallastWrite {
    async fn write(&mut self, _buf: &[u8]) -> zlink_core::Result<()> {
        Ok(())
    }
}

pub struct Ballast {
    _conn: Connection<BallastSocket>,
}

#[derive(Debug, serde::Deserialize)]
struct Nothing {}

/// A connection that has received one frame of `bytes` bytes and is kept alive by the caller.
pub fn ballast(bytes: usize) -> Ballast {
    let mut conn = Connection::new(BallastSocket { left: bytes.max(8) });
    {
        let fut = conn.receive_call::<Nothing>();
        futures_util::pin_mut!(fut);
        let waker = futures_util::task::noop_waker();
        let mut cx = std::task::Context::from_waker(&waker);
        // the socket is always ready: one poll
        let _ = fut.as_mut().poll(&mut cx);
    }
    Ballast { _conn: conn }
}

use std::future::Future;

/// What the second connection found out about itself.
#[derive(Default)]
pub struct SecondResult {
    pub got: Vec<Res>,
    pub expected: Vec<Res>,
    pub finished: bool,
}

/// Spawn a second, unrelated connection: its own scripted peer stream (1..6 frames, generated from
/// the tape), received frame by frame with a small send now and then.
pub fn spawn_second_connection<'a>(ex: &mut Exec<'a>, world: &World) -> Rc<RefCell<SecondResult>> {
    let res: Rc<RefCell<SecondResult>> = Rc::new(RefCell::new(SecondResult::default()));
    let (rd, wr, kinds, n, stays) = {
        let mut w = world.borrow_mut();
        let script = frames::gen_script(&mut w.tape, 6);
        let stream = script.stream();
        let rd = w.scripted_pipe(&stream, true);
        let wr = w.sink_pipe();
        w.step_cap += 50 * (stream.len() as u64 + 200);
        w.stat("runs_with_a_second_connection_in_the_same_thread");
        res.borrow_mut().expected = script.expected();
        (rd, wr, script.kinds.clone(), script.frames.len(), w.tape.draw(2) == 1)
    };
    let world2 = world.clone();
    let res2 = res.clone();
    ex.spawn(async move {
        let mut conn = Connection::new(W::socket(&world2, rd, wr));
        for i in 0..n {
            let op = world2.borrow_mut().tape.draw(4);
            match op {
                1 => {
                    let len = world2.borrow_mut().tape.draw(400);
                    let _ = conn.send_call(&zlink_core::Call::new(Note { method: "org.example.Note", parameters: NoteP { text: "n".repeat(len) } })).await;
                }
                2 => {
                    let (r, w) = conn.split();
                    conn = Connection::join(r, w);
                }
                _ => {}
            }
            let r = frames::recv_kind(&mut conn, kinds[i]).await;
            res2.borrow_mut().got.push(r);
        }
        res2.borrow_mut().finished = true;
        if stays {
            // the connection stays alive until the executor is dropped with everything else
            std::future::pending::<()>().await;
        }
        // (otherwise it is dropped here, while the first connection may still be busy)
    });
    res
}

/// What a connection whose two halves are driven by two different tasks found out about itself.
#[derive(Default)]
pub struct DuplexResult {
    pub got: Vec<Res>,
    pub expected: Vec<Res>,
    pub reader_done: bool,
    /// JSON values of the messages the writer task submitted successfully, in order
    pub sent: Vec<serde_json::Value>,
    pub writer_done: bool,
    pub write_error: Option<String>,
    pub wr_pipe: usize,
}

/// One more connection, split into its halves at once: a reader task receives a scripted peer's
/// frames on the read half (abandoning pending receives when `cancel` is set) while a writer task
/// sends and pipelines messages on the write half. The executor interleaves the two tasks at
/// every await point, so one half is regularly in the middle of an operation while the other one
/// starts, finishes or is dropped. Each direction is judged on its own.
pub fn spawn_split_duplex<'a>(ex: &mut Exec<'a>, world: &World, cancel: bool) -> Rc<RefCell<DuplexResult>> {
    let res: Rc<RefCell<DuplexResult>> = Rc::new(RefCell::new(DuplexResult::default()));
    let (rd, wr, kinds, n, reader_stays, writer_stays) = {
        let mut w = world.borrow_mut();
        let script = frames::gen_script(&mut w.tape, 6);
        let stream = script.stream();
        let rd = w.scripted_pipe(&stream, true);
        let wr = w.sink_pipe();
        w.step_cap += 60 * (stream.len() as u64 + 4_000);
        w.stat("runs_with_a_connection_whose_halves_are_driven_by_two_tasks");
        let mut r = res.borrow_mut();
        r.expected = script.expected();
        r.wr_pipe = wr;
        (rd, wr, script.kinds.clone(), script.frames.len(), w.tape.draw(2) == 1, w.tape.draw(2) == 1)
    };
    let conn = Connection::new(W::socket(world, rd, wr));
    let (mut rh, mut wh) = conn.split();
    let (world_r, res_r) = (world.clone(), res.clone());
    ex.spawn(async move {
        let mut i = 0;
        while i < n {
            let r = if cancel {
                match crate::world::cancellable(&world_r, frames::recv_kind_read(&mut rh, kinds[i])).await {
                    Some(r) => r,
                    None => continue,
                }
            } else {
                frames::recv_kind_read(&mut rh, kinds[i]).await
            };
            res_r.borrow_mut().got.push(r);
            i += 1;
        }
        res_r.borrow_mut().reader_done = true;
        if reader_stays {
            std::future::pending::<()>().await;
        }
        // (otherwise the read half is dropped here, possibly while the write half is mid-flush)
    });
    let (world_w, res_w) = (world.clone(), res.clone());
    ex.spawn(async move {
        let m = 1 + world_w.borrow_mut().tape.draw(6);
        for _ in 0..m {
            let (op, lens) = {
                let mut w = world_w.borrow_mut();
                let op = w.tape.draw(3);
                let k = if op == 2 { 2 + w.tape.draw(3) } else { 1 };
                let lens: Vec<usize> = (0..k).map(|_| match w.tape.draw(3) { 0 => w.tape.draw(12), 1 => 180 + w.tape.draw(120), _ => w.tape.draw(700) }).collect();
                (op, lens)
            };
            let calls: Vec<zlink_core::Call<Note>> = lens.iter().map(|l| zlink_core::Call::new(Note { method: "org.example.Note", parameters: NoteP { text: "w".repeat(*l) } })).collect();
            let r = if op == 0 {
                wh.send_call(&calls[0]).await
            } else {
                let mut e = Ok(());
                for c in &calls {
                    e = wh.enqueue_call(c);
                    if e.is_err() {
                        break;
                    }
                }
                match e {
                    Ok(()) => wh.flush().await,
                    Err(e) => Err(e),
                }
            };
            match r {
                Ok(()) => {
                    let mut rr = res_w.borrow_mut();
                    for c in &calls {
                        rr.sent.push(serde_json::to_value(c).unwrap());
                    }
                }
                Err(e) => {
                    res_w.borrow_mut().write_error = Some(format!("{e:?}"));
                    return;
                }
            }
            let pause = world_w.borrow_mut().tape.draw(3);
            crate::world::yield_n(&world_w, pause).await;
        }
        res_w.borrow_mut().writer_done = true;
        if writer_stays {
            std::future::pending::<()>().await;
        }
    });
    res
}

/// Verdict on the split connection (None = fine).
pub fn judge_duplex(id: &str, world: &World, r: &DuplexResult) -> Option<(String, String)> {
    for (i, want) in r.expected.iter().enumerate() {
        match r.got.get(i) {
            Some(g) if g == want => {}
            Some(g) => return Some((format!("{id}/split-connection-result-mismatch"), format!("a connection whose halves are driven by two tasks: frame {i} on its read half: expected {want:?}, got {g:?}"))),
            None => return Some((format!("{id}/split-connection-missing-result"), format!("a connection whose halves are driven by two tasks: its read half delivered only {} of {} frames", r.got.len(), r.expected.len()))),
        }
    }
    if let Some(e) = &r.write_error {
        return Some((format!("{id}/split-connection-send-failed"), format!("a connection whose halves are driven by two tasks: a send on its write half failed although the transport accepts every write: {e}")));
    }
    if !r.writer_done {
        return Some((format!("{id}/split-connection-writer-stuck"), "a connection whose halves are driven by two tasks: the writer task did not finish although the transport accepts every write".into()));
    }
    let w = world.borrow();
    let log = &w.pipes[r.wr_pipe].log;
    let mut frames_out: Vec<serde_json::Value> = Vec::new();
    if !log.is_empty() {
        if log.last() != Some(&0) {
            return Some((format!("{id}/split-connection-bad-framing"), "a connection whose halves are driven by two tasks: what its write half wrote does not end with a terminator".into()));
        }
        for f in log[..log.len() - 1].split(|b| *b == 0) {
            match serde_json::from_slice::<serde_json::Value>(f) {
                Ok(v) => frames_out.push(v),
                Err(e) => return Some((format!("{id}/split-connection-bad-framing"), format!("a connection whose halves are driven by two tasks: its write half wrote a frame that is not one JSON document ({e})"))),
            }
        }
    }
    if frames_out != r.sent {
        return Some((format!("{id}/split-connection-bad-framing"), format!("a connection whose halves are driven by two tasks: its write half was given {} messages, the transport saw {} frames (or other content)", r.sent.len(), frames_out.len())));
    }
    None
}

#[derive(Debug, serde::Serialize)]
struct Note {
    method: &'static str,
    parameters: NoteP,
}
#[derive(Debug, serde::Serialize)]
struct NoteP {
    text: String,
}

/// Verdict on the second connection (None = fine).
pub fn judge_second(id: &str, r: &SecondResult) -> Option<(String, String)> {
    for (i, want) in r.expected.iter().enumerate() {
        match r.got.get(i) {
            Some(g) if g == want => {}
            Some(g) => return Some((format!("{id}/second-connection-result-mismatch"), format!("the second connection's frame {i}: expected {want:?}, got {g:?}"))),
            None => return Some((format!("{id}/second-connection-missing-result"), format!("the second connection delivered only {} of its {} frames", r.got.len(), r.expected.len()))),
        }
    }
    None
}
