//! C01 — inbound framing is independent of how the transport fragments the stream.
//! C07 — the same, with the pending receive future abandoned at tape-chosen suspension points.

use crate::{
    exec::Exec,
    frames::{self, Res, Script},
    runner::{Prop, Tier, Verdict},
    world::{CancelPlan, Cfg, Chunk, World, W},
};
use serde_json::{json, Value};
use std::{cell::RefCell, rc::Rc};
use zlink_core::Connection;

pub struct Framing {
    pub cancel: bool,
}

const SYS_MODE: u32 = 7;
/// C07 only: a slice of the seeded runs goes over the real tokio / smol Unix sockets.
const REAL_SOCKET_MODE: u32 = 6;

fn short_res(r: &Res) -> String {
    let s = format!("{r:?}");
    if s.len() > 300 {
        format!("{}… ({} chars)", s.chars().take(300).collect::<String>(), s.len())
    } else {
        s
    }
}

fn all_corpus() -> Vec<Script> {
    let mut c = frames::corpus();
    c.extend(frames::boundary_corpus());
    c
}

impl Prop for Framing {
    fn id(&self) -> &'static str {
        if self.cancel {
            "C07"
        } else {
            "C01"
        }
    }

    fn run(&self, world: &World, want_sample: bool) -> Verdict {
        let id = self.id();
        // ---- scenario from the tape
        let (script, mode_desc) = {
            let mut w = world.borrow_mut();
            let first = w.tape.draw(8) as u32;
            if self.cancel && first == REAL_SOCKET_MODE && w.tape.draw(3) == 0 {
                let smol = w.tape.draw(2) == 1;
                drop(w);
                return crate::props::c19::run_receive_abandonment_on_real_sockets(world, smol);
            }
            let systematic = first == SYS_MODE;
            if systematic {
                let corpus = all_corpus();
                let idx = w.tape.draw(corpus.len() + frames::N_BIG_BOUNDARY + frames::N_FRACTION);
                let script = if idx < corpus.len() {
                    corpus[idx].clone()
                } else if idx < corpus.len() + frames::N_BIG_BOUNDARY {
                    frames::big_boundary_stream(idx - corpus.len())
                } else {
                    frames::fraction_stream(idx - corpus.len() - frames::N_BIG_BOUNDARY).0
                };
                let len = script.stream().len();
                let mut style = w.tape.draw(4);
                if len > 1_000_000 && style == 3 {
                    // (megabytes are not delivered byte by byte)
                    style = 0;
                }
                w.cfg = Cfg::plain();
                w.cfg.bias = 3;
                let mut cuts = Vec::new();
                if style == 3 {
                    w.cfg.chunk = Chunk::Byte;
                } else {
                    w.cfg.chunk = Chunk::Cuts;
                    for _ in 0..style {
                        cuts.push(1 + w.tape.draw(len - 1));
                    }
                }
                if self.cancel {
                    // every k-th pending poll is cancelled, k from the tape (1 = every one)
                    let k = 1 + w.tape.draw(12);
                    w.cancel = CancelPlan::EveryKth(k);
                }
                // 0 = Connection's own receive methods; 1 = split + join before every receive;
                // 2 = reply kinds through a two-call chain's reply stream
                let api_mode = w.tape.draw(3);
                // one transient transport failure after g bytes (g >= len: none)
                let g = w.tape.draw(2 * len);
                let glitches = if g >= 1 && g < len && api_mode < 2 { vec![g] } else { Vec::new() };
                let d = format!("systematic corpus[{idx}] style={style} cuts={cuts:?} cancel={:?} api_mode={api_mode} transient_read_errors_at={glitches:?}", w.cancel);
                let p_cuts = cuts;
                (script, (d, p_cuts, api_mode, glitches))
            } else {
                w.cfg = Cfg::swarm(&mut w.tape);
                // listener / stream buggify sites do not exist in this world
                let script = frames::gen_script(&mut w.tape, 8);
                if self.cancel {
                    w.cancel = match w.tape.draw(4) {
                        0 => CancelPlan::Prob(1, 2),
                        1 => CancelPlan::Prob(1, 8),
                        2 => CancelPlan::EveryKth(1),
                        _ => CancelPlan::EveryKth(2 + w.tape.draw(5)),
                    };
                }
                // half of the runs use one entry point throughout, the others pick one per receive:
                // Connection's methods, the read half, split + join in between, a chain's stream
                let api_mode = if w.tape.draw(2) == 0 { 0 } else { 3 };
                // one run in four: the transport fails transiently (an error result, after which
                // the byte stream simply goes on) at one to three places
                let mut glitches = Vec::new();
                if w.tape.draw(4) == 3 {
                    let len = script.stream().len();
                    for _ in 0..1 + w.tape.draw(3) {
                        glitches.push(1 + w.tape.draw(len.max(2) - 1));
                    }
                    glitches.sort();
                }
                let d = format!("seeded cfg={:?} cancel={:?} api_mode={api_mode} transient_read_errors_at={glitches:?}", w.cfg, w.cancel);
                (script, (d, Vec::new(), api_mode, glitches))
            }
        };
        let api_mode = mode_desc.2;
        let stream = script.stream();
        let n = script.frames.len();
        let expected = script.expected();
        let (rd, wr) = {
            let mut w = world.borrow_mut();
            let rd = w.scripted_pipe(&stream, true);
            w.pipes[rd].cuts = mode_desc.1.clone();
            w.pipes[rd].read_glitch_at = mode_desc.3.clone();
            let wr = w.sink_pipe();
            w.step_cap = 50 * (stream.len() as u64 + 200);
            (rd, wr)
        };

        // ---- the code under test: real Connection over the stub socket
        let results: Rc<RefCell<Vec<Res>>> = Rc::new(RefCell::new(Vec::new()));
        // the target type actually used for each result (a chain receives several frames as one type)
        let used: Rc<RefCell<Vec<usize>>> = Rc::new(RefCell::new(Vec::new()));
        let cancel = self.cancel;
        // set when the connection kept failing after the script's transient failures were used up
        let gave_up: Rc<RefCell<bool>> = Rc::new(RefCell::new(false));
        // Neighbours: one seeded run in eight shares the thread with a second scripted connection
        // whose traffic is interleaved with this one's. (The other kind of neighbour, a live
        // connection holding tens of MiB, is process-wide and set up by `main` for a whole pass.)
        let seeded = mode_desc.0.starts_with("seeded");
        let want_second = seeded && world.borrow_mut().tape.draw(8) == 7;
        if crate::runner::UNDER_BALLAST.load(std::sync::atomic::Ordering::Relaxed) {
            world.borrow_mut().stat("runs_next_to_a_connection_holding_tens_of_MiB");
        }
        // ... and one in eight with a connection that is split at once, its two halves driven by two
        // tasks (both directions busy, one half mid-operation while the other starts, ends or is dropped)
        let want_duplex = seeded && world.borrow_mut().tape.draw(8) == 6;
        let mut duplex: Option<Rc<RefCell<crate::neighbours::DuplexResult>>> = None;
        let mut second: Option<Rc<RefCell<crate::neighbours::SecondResult>>> = None;
        {
            let mut conn = Connection::new(W::socket(world, rd, wr));
            let mut ex = Exec::new();
            if want_second {
                second = Some(crate::neighbours::spawn_second_connection(&mut ex, world));
            }
            if want_duplex {
                duplex = Some(crate::neighbours::spawn_split_duplex(&mut ex, world, cancel));
            }
            let results2 = results.clone();
            let used2 = used.clone();
            let kinds = script.kinds.clone();
            let world2 = world.clone();
            let n_glitches = mode_desc.3.len();
            let glitchy = n_glitches > 0;
            let gave_up2 = gave_up.clone();
            let mut transport_errors = 0usize;
            ex.spawn(async move {
                // n frames, then one more receive that must report end-of-stream
                loop {
                    let i = results2.borrow().len();
                    if i > n {
                        break;
                    }
                    let kind = if i < n { kinds[i] } else { 0 };
                    // which public entry point performs this receive
                    let api = match api_mode {
                        0 => 0,
                        1 => 5,
                        2 => 6,
                        // (a chain's reply stream ends at a transport error; with transient failures
                        // in the script the receives go through the plain entry points)
                        _ if glitchy => world2.borrow_mut().tape.draw(6),
                        _ => world2.borrow_mut().tape.draw(8),
                    };
                    if api >= 6 && (frames::is_reply_kind(kind) || i == n) {
                        // through a chain's reply stream (reply target types only)
                        let k = if i == n { frames::REPLY_KINDS[i % 4] } else { kind };
                        let (calls, max_items) = if api_mode == 2 {
                            (2, (n + 1 - i).min(2))
                        } else {
                            let mut w = world2.borrow_mut();
                            (1 + w.tape.draw(4), 1 + w.tape.draw((n + 1 - i).min(4)))
                        };
                        let mut out = Vec::new();
                        let abandoned = frames::recv_via_chain(&world2, &mut conn, k, calls, max_items, cancel, &mut out).await;
                        let mut w = world2.borrow_mut();
                        w.stat("api.receive_through_chain_reply_stream");
                        if abandoned {
                            w.stat("api.chain_reply_stream_abandoned");
                        }
                        for r in out {
                            let idx = results2.borrow().len();
                            w.ev("recv.result", idx as u64, matches!(r, Res::Ok(_)) as u64);
                            used2.borrow_mut().push(k);
                            results2.borrow_mut().push(r);
                        }
                        continue;
                    }
                    if api == 5 {
                        // take the connection apart and put it together again
                        let (r, w) = conn.split();
                        conn = Connection::join(r, w);
                        world2.borrow_mut().stat("api.split_and_join_between_receives");
                    }
                    let r = if api == 4 {
                        world2.borrow_mut().stat("api.receive_on_read_half");
                        if cancel {
                            match crate::world::cancellable(&world2, frames::recv_kind_read(conn.read_mut(), kind)).await {
                                Some(r) => r,
                                None => continue,
                            }
                        } else {
                            frames::recv_kind_read(conn.read_mut(), kind).await
                        }
                    } else if cancel {
                        match crate::world::cancellable(&world2, frames::recv_kind(&mut conn, kind)).await {
                            Some(r) => r,
                            None => continue, // abandoned: start a new receive for the same slot
                        }
                    } else {
                        frames::recv_kind(&mut conn, kind).await
                    };
                    if glitchy {
                        if let Res::ErrOther(_) = r {
                            // A transport failure, not a frame's result: try again. (If the failures
                            // outlast the script's transient ones the connection has given up for
                            // good, which the statement does not forbid; the run ends there.)
                            let mut w = world2.borrow_mut();
                            w.ev("recv.transport_error", i as u64, 0);
                            transport_errors += 1;
                            if transport_errors > n_glitches + 2 {
                                *gave_up2.borrow_mut() = true;
                                break;
                            }
                            w.stat("receive_retried_after_transient_transport_error");
                            continue;
                        }
                    }
                    world2.borrow_mut().ev("recv.result", i as u64, matches!(r, Res::Ok(_)) as u64);
                    used2.borrow_mut().push(kind);
                    results2.borrow_mut().push(r);
                }
            });
            ex.run(world);
        }

        // ---- oracle
        if let Some(sr) = &second {
            if let Some(f) = crate::neighbours::judge_second(id, &sr.borrow()) {
                return Err(f);
            }
        }
        if let Some(dr) = &duplex {
            if let Some(f) = crate::neighbours::judge_duplex(id, world, &dr.borrow()) {
                return Err(f);
            }
        }
        let got = results.borrow();
        let used = used.borrow();
        let expected: Vec<Res> = (0..n).map(|i| match used.get(i) {
            Some(k) if *k != script.kinds[i] => frames::ref_kind(&script.frames[i], *k),
            _ => expected[i].clone(),
        }).collect();
        let sample = if want_sample || world.borrow().want_sample {
            let v = json!({"mode": mode_desc.0, "frames": script.describe(), "stream_bytes": stream.len()});
            world.borrow_mut().scenario = Some(v.clone());
            Some(v)
        } else {
            None
        };
        let gave_up = *gave_up.borrow();
        if gave_up {
            world.borrow_mut().stat("connection_gave_up_after_transport_errors");
        }
        for i in 0..n {
            match got.get(i) {
                // after transport failures a connection may refuse to go on; what it did deliver
                // must still be right
                None if gave_up => return Ok(sample),
                None => {
                    return Err((
                        format!("{id}/missing-result"),
                        format!("only {} results for {} frames (receive {} never completed); expected {:?}", got.len(), n, i, expected[i]),
                    ))
                }
                Some(r) if *r != expected[i] => {
                    return Err((
                        format!("{id}/result-mismatch"),
                        format!("frame {i} ({:?}{} as {}): expected {}, got {}", String::from_utf8_lossy(&script.frames[i][..script.frames[i].len().min(200)]), if script.frames[i].len() > 200 { format!("… {} bytes", script.frames[i].len()) } else { String::new() }, frames::KIND_NAMES[used.get(i).copied().unwrap_or(script.kinds[i])], short_res(&expected[i]), short_res(r)),
                    ))
                }
                _ => {}
            }
        }
        match got.get(n) {
            Some(Res::ErrEof) => {}
            None if gave_up => {}
            other => {
                return Err((
                    format!("{id}/no-end-of-stream"),
                    format!("after all {n} frames the next receive returned {other:?} instead of end-of-stream"),
                ))
            }
        }
        {
            let mut w = world.borrow_mut();
            if w.cancels > 0 {
                w.stat("runs_with_at_least_one_cancellation");
            }
        }
        Ok(sample)
    }

    fn systematic(&self, tier: Tier) -> Vec<Vec<u32>> {
        let mut tapes = Vec::new();
        let corpus = all_corpus();
        let n_short = frames::corpus().len();
        // big boundary family: totals within two bytes of 256 x {127..129, 255..257, 511..513}; whole
        // and strided delivery, a few cuts near the end; for C07 with every / every 2nd / 3rd / 5th
        // pending poll abandoned
        for j in 0..frames::N_BIG_BOUNDARY {
            let idx = (corpus.len() + j) as u32;
            let len = frames::big_boundary_stream(j).stream().len();
            let ks: Vec<u32> = if self.cancel { vec![0, 1, 2, 4] } else { vec![0] };
            for k in &ks {
                let tail = |mut v: Vec<u32>| {
                    if self.cancel {
                        v.push(*k);
                    }
                    v.push(0); // api: Connection's own methods
                    v.push(len as u32); // no transient failure
                    v
                };
                tapes.push(tail(vec![SYS_MODE, idx, 0]));
                tapes.push(tail(vec![SYS_MODE, idx, 3]));
                for back in [1usize, 2, 255, 256, 257, 300] {
                    tapes.push(tail(vec![SYS_MODE, idx, 1, (len - 1 - back) as u32]));
                }
            }
        }
        // fraction family: a frame of more than 1 MiB, then a long frame interrupted at a simple
        // fraction of the length the buffer had reached (a transient failure there; for C07 also an
        // abandoned receive there)
        for j in 0..frames::N_FRACTION {
            let idx = (corpus.len() + frames::N_BIG_BOUNDARY + j) as u32;
            let (script, f1_end, off) = frames::fraction_stream(j);
            let len = script.stream().len();
            let at = (f1_end + off) as u32;
            let mut with_glitch = vec![SYS_MODE, idx, 2, f1_end as u32 - 1, at - 1];
            let mut without = with_glitch.clone();
            if self.cancel {
                with_glitch.push(11); // (abandon every 12th pending poll: practically never)
                without.push(0); // abandon at every pending poll
            }
            with_glitch.extend([0, at]);
            without.extend([0, len as u32]);
            tapes.push(with_glitch);
            if self.cancel {
                tapes.push(without);
            }
        }
        for (idx, s) in corpus.iter().enumerate() {
            let len = s.stream().len();
            let idx = idx as u32;
            let ks: Vec<u32> = if self.cancel { vec![0, 1, 2, 4] } else { vec![0] };
            for k in &ks {
                let tail = |mut v: Vec<u32>| {
                    if self.cancel {
                        v.push(*k);
                    }
                    v
                };
                // whole stream, byte by byte
                tapes.push(tail(vec![SYS_MODE, idx, 0]));
                tapes.push(tail(vec![SYS_MODE, idx, 3]));
                // every single cut
                for c in 0..(len - 1) as u32 {
                    tapes.push(tail(vec![SYS_MODE, idx, 1, c]));
                }
                // ... and again with the connection split and re-joined before every receive, and
                // with reply frames received through a chain's reply stream
                if *k == ks[0] || *k == 1 {
                    for api in 1..3u32 {
                        for c in 0..(len - 1) as u32 {
                            let mut v = tail(vec![SYS_MODE, idx, 1, c]);
                            if !self.cancel {
                                // (no cancel digit on the tape in C01)
                            }
                            v.push(api);
                            tapes.push(v);
                        }
                    }
                }
            }
            // one transient transport failure at every offset: whole-stream and byte-by-byte
            // delivery (and, for C07, every pending poll abandoned as well)
            for style in [0u32, 3] {
                for g in 1..len as u32 {
                    let mut v = vec![SYS_MODE, idx, style];
                    if self.cancel {
                        v.push(if style == 3 { g % 3 } else { 0 });
                    }
                    v.push(0);
                    v.push(g);
                    tapes.push(v);
                }
            }
            // every pair of cuts for the short corpus
            let pair_limit = match (tier, self.cancel) {
                (Tier::Quick, false) => 90,
                (Tier::Quick, true) => 60,
                (Tier::Thorough, _) => 400,
            };
            if (idx as usize) < n_short && len <= pair_limit {
                // every (cut, transient failure) pair
                for c in 0..(len - 1) as u32 {
                    for g in 1..len as u32 {
                        let mut v = vec![SYS_MODE, idx, 1, c];
                        if self.cancel {
                            v.push((c + g) % 2);
                        }
                        v.push(0);
                        v.push(g);
                        tapes.push(v);
                    }
                }
                let ks2: Vec<u32> = if self.cancel { vec![0, 1] } else { vec![0] };
                for k in &ks2 {
                    for a in 0..(len - 1) as u32 {
                        for b in (a + 1)..(len - 1) as u32 {
                            let mut v = vec![SYS_MODE, idx, 2, a, b];
                            if self.cancel {
                                v.push(*k);
                            }
                            tapes.push(v);
                        }
                    }
                }
            }
            if self.cancel {
                // byte-by-byte delivery with every k-th pending poll cancelled, for every k
                for k in 0..12u32 {
                    tapes.push(vec![SYS_MODE, idx, 3, k]);
                }
            }
        }
        tapes
    }

    fn random_runs(&self, tier: Tier) -> u64 {
        match tier {
            Tier::Quick => 150_000,
            Tier::Thorough => 3_000_000,
        }
    }

    fn pressure_runs(&self, tier: Tier) -> u64 {
        match tier {
            Tier::Quick => 40_000,
            Tier::Thorough => 400_000,
        }
    }

    fn watchdog_secs(&self) -> Option<u64> {
        // C07's real-socket slice issues syscalls
        if self.cancel {
            Some(120)
        } else {
            None
        }
    }

    fn rule(&self) -> String {
        let base = "Each execution = one scripted peer stream (1..8 non-empty NUL-terminated frames — one run in sixteen up to 300 frames, one in sixteen with frames of 1..90 kB around 2^15, 2^16 and far growth steps — valid / wrong-shape / malformed / whitespace-padded, for six receive target types, sizes steered onto the 256-byte growth steps) x one partition of the stream into deliveries x one schedule of reads (short reads, spurious pending, coalescing). Systematic part: a fixed corpus of short streams with every single cut and every pair of cuts, whole and byte-by-byte. Non-trivial = at least one partial delivery, short read, pending-despite-data or cancellation actually happened; distinct = distinct hash of the (event kind, actor) sequence of the run.";
        if self.cancel {
            format!("{base} C07 adds: the pending receive future is dropped at tape-chosen Pending polls (every k-th for every k in the systematic part; probabilistic in the seeded part) and a fresh receive is started. One seeded run in twenty-four runs the same question over the real transports instead: duplex connections on real tokio / smol Unix sockets (socketpair or bound listener, SO_SNDBUF 4 KiB..default, messages up to 100 kB), every syscall issued by this thread in tape order, receivers abandoning pending receives at the transport crates' own suspension points; decoded sequence must equal sent sequence.")
        } else {
            base.to_string()
        }
    }

    fn components(&self) -> Value {
        json!({
            "real": ["zlink_core::Connection", "ReadConnection::{receive_call, receive_reply, read_message, read_from_socket}", "Call/Reply deserialisers", "ReplyError derive output", "serde_json"],
            "stub": ["SimSocket/SimReadHalf (ours, behind zlink's ReadHalf trait)", "scripted peer", "executor"],
            "real_in_the_C07_real_socket_slice": ["zlink_tokio::unix::{Stream, ReadHalf, WriteHalf, bind, connect}", "zlink_smol::unix (same)", "tokio current-thread I/O driver / async-io", "Linux AF_UNIX stream sockets"],
        })
    }

    fn assumptions(&self) -> Vec<String> {
        vec![
            "reference result of a frame = serde_json::from_slice::<T>(exactly that frame); only the error kind is compared, never message or position".into(),
            "streams end with a terminated frame followed by EOF; a truncated tail is outside the property's domain".into(),
            "stub read half honours the trait contract: bytes are transferred only by the poll that returns Ready".into(),
        ]
    }
}
