//! C02 — outbound framing: one JSON document plus one NUL per message, in order; one write per
//! flush; a refused serialisation contributes nothing.

use crate::{
    exec::Exec,
    runner::{Prop, Tier, Verdict},
    tape::Tape,
    world::{cancellable, CancelPlan, Cfg, World, W},
};
use serde::{ser::SerializeStruct, Serialize};
use serde_json::{json, Value};
use std::{cell::RefCell, collections::BTreeMap, rc::Rc};
use zlink_core::{Call, Connection, Reply, ReplyError};

pub struct Outbound;

const SYS_MODE: u32 = 7;

#[derive(Debug, Serialize)]
#[serde(tag = "method", content = "parameters")]
enum MethOut {
    #[serde(rename = "org.example.Echo")]
    Echo { text: String, n: u32 },
}

#[derive(Debug, Serialize)]
struct RepOut {
    id: u32,
    pad: String,
}

#[derive(Debug, ReplyError)]
#[zlink(interface = "org.example", crate = "zlink_core")]
enum ErrOut {
    Gone,
    Bad { code: i32, why: String },
}

/// Refused by the serializer: a map whose key is a tuple, after `lead` was already emitted.
#[derive(Debug, Serialize)]
struct BadKey {
    lead: String,
    m: BTreeMap<(i32, i32), i32>,
}

/// Refused by the value itself after `k` fields have been emitted.
#[derive(Debug)]
struct FailAfter {
    k: usize,
    pad: String,
}

impl Serialize for FailAfter {
    fn serialize<S: serde::Serializer>(&self, s: S) -> Result<S::Ok, S::Error> {
        let mut st = s.serialize_struct("FailAfter", 4)?;
        for i in 0..4 {
            if self.k >= 8 && i == self.k - 8 {
                // the application's own code fails the hard way, part of the document already written
                panic!("value panicked while being serialised");
            }
            if i == self.k {
                return Err(serde::ser::Error::custom("refused by the value"));
            }
            st.serialize_field(["a", "b", "c", "d"][i], &self.pad)?;
        }
        st.end()
    }
}

// ------------------------------------------------------------------------------------------
// A payload type that covers the shapes of serde's data model: the frame is whatever the
// serializer makes of the value, so "exactly one JSON document" has to hold for every shape.

#[derive(Debug, Clone, Serialize)]
struct UnitS;
#[derive(Debug, Clone, Serialize)]
struct NewS(i16);
#[derive(Debug, Clone, Serialize)]
struct TupS(u8, String);
#[derive(Debug, Clone, Serialize)]
struct EmptyS {}
#[derive(Debug, Clone, Serialize)]
#[serde(tag = "t", content = "c")]
enum Adj {
    A,
    B { x: i32 },
    C(String),
}
#[derive(Debug, Clone, Serialize)]
#[serde(tag = "kind")]
enum Internal {
    P,
    Q { y: bool },
}
#[derive(Debug, Clone, Serialize)]
#[serde(untagged)]
enum Untagged {
    N(i32),
    S { s: String },
}
#[derive(Debug, Clone, Serialize)]
struct Flat {
    k: i32,
    #[serde(flatten)]
    rest: BTreeMap<String, i32>,
}
#[derive(Debug, Clone, Serialize)]
enum KeyEnum {
    North,
    South,
}

/// Serialised through `Serializer::collect_str` (as paths, addresses, ids often are); its
/// `Display` writes its text piecewise, character-wise or through padding with a fill character.
#[derive(Debug, Clone)]
struct Shown {
    text: String,
    style: u8,
}

impl std::fmt::Display for Shown {
    fn fmt(&self, f: &mut std::fmt::Formatter<'_>) -> std::fmt::Result {
        use std::fmt::Write;
        match self.style % 4 {
            0 => f.write_str(&self.text),
            1 => {
                for c in self.text.chars() {
                    f.write_char(c)?;
                }
                Ok(())
            }
            2 => write!(f, "{:\"<9}|{:\\>7}|{:\u{0}^5}", self.text, 'q', "m"),
            _ => {
                for c in self.text.chars() {
                    write!(f, "{}", c)?;
                    f.write_str("-")?;
                }
                Ok(())
            }
        }
    }
}

impl Serialize for Shown {
    fn serialize<S: serde::Serializer>(&self, s: S) -> Result<S::Ok, S::Error> {
        s.collect_str(self)
    }
}

thread_local! {
    static LIVE: std::cell::Cell<usize> = const { std::cell::Cell::new(40) };
    /// set while the harness itself renders a value (reference rendering): the gauge does not move
    static LIVE_FROZEN: std::cell::Cell<bool> = const { std::cell::Cell::new(false) };
}

/// A value whose serialisation is not the same every time it is asked for: a live gauge, a
/// countdown. Here: a string of `v`s that gets three characters shorter with every serialisation
/// (so a second pass over the same message - after a buffer growth, say - writes a shorter
/// document than the first).
#[derive(Debug, Clone)]
struct Live;

impl Serialize for Live {
    fn serialize<S: serde::Serializer>(&self, s: S) -> Result<S::Ok, S::Error> {
        if LIVE_FROZEN.with(|f| f.get()) {
            return s.serialize_str("vvvvv");
        }
        let k = LIVE.with(|c| {
            let k = c.get();
            c.set(if k > 3 { k - 3 } else { 40 });
            k
        });
        s.serialize_str(&"v".repeat(k))
    }
}

/// Strings made of `v`s only are renderings of a `Live` value: any of them is as good as another.
fn norm_live(v: &mut Value) {
    match v {
        Value::String(s) if !s.is_empty() && s.bytes().all(|b| b == b'v') => *s = "<live>".into(),
        Value::Array(a) => a.iter_mut().for_each(norm_live),
        Value::Object(o) => o.values_mut().for_each(norm_live),
        _ => {}
    }
}

#[derive(Debug, Clone, Serialize)]
enum Zoo {
    Live(Live),
    LiveIn { lead: String, gauge: Live, tail: String },
    Shown(Shown),
    ShownKey(BTreeMap<String, Shown>),
    Unit,
    NewInt(i64),
    NewStr(String),
    Tup(i32, String),
    EmptyTup(),
    Struct { a: Box<Zoo>, b: Option<Box<Zoo>> },
    EmptyStruct {},
    Seq(Vec<Zoo>),
    Map(BTreeMap<String, Zoo>),
    IntMap(BTreeMap<i32, Zoo>),
    CharMap(BTreeMap<char, bool>),
    EnumMap(BTreeMap<u8, KeyEnum>),
    Opt(Option<Box<Zoo>>),
    Bool(bool),
    U(u64),
    I(i128),
    F(f64),
    Ch(char),
    UnitStruct(UnitS),
    NewtypeStruct(NewS),
    TupleStruct(TupS),
    EmptyStructS(EmptyS),
    Tuple((i32, bool, String)),
    Unit0(()),
    #[serde(rename = "re-named")]
    Renamed {
        #[serde(rename = "x-y")]
        x: i32,
        #[serde(skip_serializing_if = "Option::is_none")]
        skipped: Option<i32>,
    },
    Adj(Adj),
    Internal(Internal),
    Untagged(Untagged),
    Flat(Flat),
    Nested(Vec<Vec<Option<()>>>),
}

#[derive(Debug, Clone, Serialize)]
struct ZooP {
    v: Zoo,
}
#[derive(Debug, Serialize)]
struct ZooCall {
    method: &'static str,
    parameters: ZooP,
}
#[derive(Debug, Serialize)]
struct ZooErr {
    error: &'static str,
    parameters: ZooP,
}

fn zoo_str(t: &mut Tape) -> String {
    ["", "a", "q\"uote", "back\\slash", "nul\u{0}", "tab\t", "\u{e9}\u{2013}\u{1f600}", "/", "long string without anything special in it"][t.draw(9)].to_string()
}

fn gen_zoo(t: &mut Tape, depth: usize) -> Zoo {
    let leaf_only = depth == 0;
    let pick = if leaf_only { 12 + t.draw(23) } else { t.draw(35) };
    let child = |t: &mut Tape| Box::new(gen_zoo(t, depth - 1));
    match pick {
        0 => Zoo::Struct { a: child(t), b: if t.draw(2) == 0 { None } else { Some(child(t)) } },
        1 => Zoo::Seq((0..t.draw(4)).map(|_| gen_zoo(t, depth - 1)).collect()),
        2 => Zoo::Map((0..t.draw(3)).map(|i| (format!("k{i}{}", zoo_str(t)), gen_zoo(t, depth - 1))).collect()),
        3 => Zoo::IntMap((0..t.draw(3)).map(|i| (i as i32 * 7 - 3, gen_zoo(t, depth - 1))).collect()),
        4 => Zoo::Opt(if t.draw(2) == 0 { None } else { Some(child(t)) }),
        5..=11 => gen_zoo(t, 0),
        12 => Zoo::Unit,
        13 => Zoo::NewInt([0, -1, i64::MIN, i64::MAX, 42][t.draw(5)]),
        14 => Zoo::NewStr(zoo_str(t)),
        15 => Zoo::Tup(t.draw(100) as i32 - 50, zoo_str(t)),
        16 => Zoo::EmptyTup(),
        17 => Zoo::EmptyStruct {},
        18 => Zoo::CharMap([('a', true), ('"', false), ('\u{e9}', true)].into_iter().take(t.draw(4)).collect()),
        19 => Zoo::EnumMap([(1u8, KeyEnum::North), (200u8, KeyEnum::South)].into_iter().take(t.draw(3)).collect()),
        20 => Zoo::Bool(t.draw(2) == 1),
        21 => Zoo::U([0, 1, u64::MAX][t.draw(3)]),
        22 => Zoo::I([0, -5, i64::MIN as i128, u64::MAX as i128][t.draw(4)]),
        23 => Zoo::F([0.0, -1.25, 0.5, 1e10, 3.0, 1.0e-7][t.draw(6)]),
        24 => Zoo::Ch(['x', '"', '\\', '\u{0}', '\u{e9}', '\u{1f600}'][t.draw(6)]),
        25 => [Zoo::UnitStruct(UnitS), Zoo::NewtypeStruct(NewS(-7)), Zoo::TupleStruct(TupS(9, zoo_str(t))), Zoo::EmptyStructS(EmptyS {}), Zoo::Unit0(())][t.draw(5)].clone(),
        26 => Zoo::Tuple((t.draw(10) as i32, t.draw(2) == 1, zoo_str(t))),
        27 => Zoo::Renamed { x: t.draw(10) as i32, skipped: if t.draw(2) == 0 { None } else { Some(3) } },
        28 => [Zoo::Adj(Adj::A), Zoo::Adj(Adj::B { x: 4 }), Zoo::Adj(Adj::C(zoo_str(t))), Zoo::Internal(Internal::P), Zoo::Internal(Internal::Q { y: true }), Zoo::Untagged(Untagged::N(5)), Zoo::Untagged(Untagged::S { s: zoo_str(t) })][t.draw(7)].clone(),
        29 => Zoo::Flat(Flat { k: 1, rest: (0..t.draw(3)).map(|i| (format!("f{i}"), i as i32)).collect() }),
        30 => Zoo::Shown(Shown { text: zoo_str(t), style: t.draw(4) as u8 }),
        32 => Zoo::Live(Live),
        33 => Zoo::LiveIn { lead: zoo_str(t), gauge: Live, tail: zoo_str(t) },
        31 => Zoo::ShownKey((0..t.draw(3)).map(|i| (format!("s{i}"), Shown { text: zoo_str(t), style: t.draw(4) as u8 })).collect()),
        _ => Zoo::Nested((0..t.draw(3)).map(|i| (0..i + t.draw(2)).map(|j| if j % 2 == 0 { None } else { Some(()) }).collect()).collect()),
    }
}

#[derive(Debug, Clone)]
enum Msg {
    /// A value of the shape zoo, sent as a call (0), a reply (1) or an error (2).
    Zoo { v: Zoo, as_kind: u8 },
    Call { len: usize, n: u32, oneway: bool, more: bool },
    Reply { len: usize, id: u32, continues: Option<bool> },
    ErrBad { len: usize, code: i32 },
    ErrGone,
    BadKey { len: usize },
    FailAfter { k: usize, len: usize },
}

fn padstr(n: usize, salt: u32) -> String {
    let alphabet = b"abcdefghijklmnopqrstuvwxyzABCDEFGHIJ0123456789";
    (0..n).map(|i| alphabet[(i * 11 + salt as usize) % alphabet.len()] as char).collect()
}

impl Msg {
    fn is_bad(&self) -> bool {
        matches!(self, Msg::BadKey { .. } | Msg::FailAfter { .. })
    }

    fn expected(&self) -> Value {
        match self {
            Msg::Call { len, n, oneway, more } => {
                let mut v = json!({"method": "org.example.Echo", "parameters": {"text": padstr(*len, *n), "n": n}});
                if *oneway {
                    v["oneway"] = json!(true);
                }
                if *more {
                    v["more"] = json!(true);
                }
                v
            }
            Msg::Reply { len, id, continues } => {
                let mut v = json!({"parameters": {"id": id, "pad": padstr(*len, *id)}});
                if let Some(c) = continues {
                    v["continues"] = json!(c);
                }
                v
            }
            Msg::ErrBad { len, code } => {
                json!({"error": "org.example.Bad", "parameters": {"code": code, "why": padstr(*len, *code as u32)}})
            }
            Msg::ErrGone => json!({"error": "org.example.Gone"}),
            Msg::Zoo { v, as_kind } => {
                LIVE_FROZEN.with(|f| f.set(true));
                let p = serde_json::to_value(ZooP { v: v.clone() }).expect("serde_json takes every zoo value");
                LIVE_FROZEN.with(|f| f.set(false));
                match as_kind {
                    0 => json!({"method": "org.example.Zoo", "parameters": p}),
                    1 => json!({"parameters": p}),
                    _ => json!({"error": "org.example.ZooErr", "parameters": p}),
                }
            }
            _ => Value::Null,
        }
    }

    /// Serialised length in bytes (pads are ASCII, so this is linear in `len`).
    fn wire_len(&self) -> usize {
        serde_json::to_vec(&self.expected()).unwrap().len()
    }

    fn with_wire_len(mut self, want: usize) -> Msg {
        let base = {
            let mut z = self.clone();
            z.set_len(0);
            z.wire_len()
        };
        self.set_len(want.saturating_sub(base));
        self
    }

    fn set_len(&mut self, l: usize) {
        match self {
            Msg::Call { len, .. } | Msg::Reply { len, .. } | Msg::ErrBad { len, .. } | Msg::BadKey { len } | Msg::FailAfter { len, .. } => *len = l,
            Msg::ErrGone | Msg::Zoo { .. } => {}
        }
    }
}

#[derive(Debug, Clone)]
enum Op {
    Enqueue(Msg),
    Send(Msg),
    Flush,
    /// `chain_call(first).append(..)…send()`; every link is a call (or a refused value). A refused
    /// link ends the chain there: the links accepted before it stay enqueued, nothing is sent.
    Chain(Vec<Msg>),
    /// `Connection::split()` followed by `Connection::join()`.
    Rejoin,
}

/// Steering model of zlink's write buffer (used to aim sizes, never as an oracle).
#[derive(Clone, Copy)]
struct Steer {
    pos: usize,
    cap: usize,
}

impl Steer {
    fn enqueue(&mut self, l: usize) {
        while self.cap - self.pos < l {
            self.cap += 256;
        }
        if self.pos + l == self.cap {
            self.cap += 256;
        }
        self.pos += l + 1;
    }
    fn free(&self) -> usize {
        self.cap - self.pos
    }
}

fn gen_good(t: &mut Tape) -> Msg {
    match t.draw(5) {
        4 => {
            let depth = t.draw(4);
            Msg::Zoo { v: gen_zoo(t, depth), as_kind: t.draw(3) as u8 }
        }
        0 => Msg::Call { len: 0, n: t.draw(1000) as u32, oneway: t.draw(4) == 3, more: t.draw(4) == 3 },
        1 => Msg::Reply { len: 0, id: t.draw(1000) as u32, continues: [None, Some(true), Some(false)][t.draw(3)] },
        2 => Msg::ErrBad { len: 0, code: t.draw(100) as i32 },
        _ => Msg::ErrGone,
    }
}

fn aim(t: &mut Tape, m: Msg, st: &Steer, big_left: &mut usize) -> Msg {
    let f = st.free();
    if *big_left > 0 && t.draw(3) == 0 {
        *big_left -= 1;
        let want = match t.draw(4) {
            0 => 32_768 - 8 + t.draw(16),
            1 => 65_536 - 8 + t.draw(16),
            2 => f + 256 * (40 + t.draw(300)) - 2 + t.draw(5),
            _ => 1_000 + t.draw(90_000),
        };
        return m.with_wire_len(want);
    }
    let want = match t.draw(7) {
        0 => 0,                         // minimal
        1 => f.saturating_sub(1),       // terminator lands on the last byte
        2 => f,                         // document ends exactly at the buffer end
        3 => f + 1,                     // one byte over
        4 => f + 256 * (1 + t.draw(3)) + t.draw(5), // several growth steps
        5 => t.draw(40),
        _ => t.draw(700),
    };
    m.with_wire_len(want)
}

fn gen_history(t: &mut Tape) -> Vec<Op> {
    // scale swarm: one history in sixteen is long (up to 400 operations on one connection), one
    // in sixteen carries messages of tens of kilobytes (around 2^15 / 2^16, hundreds of growth steps)
    let scale = t.draw(64);
    // (the writer re-serialises from scratch for every 256-byte growth step, so a 90 kB message
    // costs ~16 MB of serialisation the first time: big histories are rarer and hold at most
    // three big messages)
    let mut big_left = if scale >= 62 { 3 } else { 0 };
    // one history in a thousand is very long: about 2^16 operations on one connection
    let wide = scale == 55 && t.draw(16) == 15;
    let n = if wide { 65_300 + t.draw(500) } else if scale >= 56 && scale < 60 { 40 + t.draw(360) } else { 1 + t.draw(30) };
    let bad_rate = [0usize, 1, 3][t.draw(3)];
    // half of the histories stay with enqueue/send/flush on the connection itself; the others also
    // build chains, go through `write_mut()` and take the connection apart and together again
    let api_mix = t.draw(2) == 1;
    let mut st = Steer { pos: 0, cap: 256 };
    let mut ops = Vec::new();
    for _ in 0..n {
        let bad = t.chance(bad_rate, 12);
        let msg = if bad {
            let len = if wide { t.draw(200) } else { [0, st.free().saturating_sub(8), st.free() + 10, t.draw(600)][t.draw(4)] };
            if t.draw(2) == 0 {
                Msg::BadKey { len }
            } else {
                // (one refusing value in four panics instead of returning an error)
                Msg::FailAfter { k: t.draw(4) + if t.draw(4) == 3 { 8 } else { 0 }, len }
            }
        } else {
            let m = gen_good(t);
            if wide {
                // (sizes aimed at the free space would make the buffer, and with it the next aimed
                // size, grow with every message: 2^16 of those is terabytes)
                m.with_wire_len(t.draw(160))
            } else {
                aim(t, m, &st, &mut big_left)
            }
        };
        let op = match t.draw(if api_mix { 8 } else { 5 }) {
            0 | 1 => Op::Enqueue(msg),
            2 | 3 => Op::Send(msg),
            4 => Op::Flush,
            5 => Op::Rejoin,
            _ => {
                // a chain of 1..4 links; the aimed message is one of them, the others are small calls
                let k = 1 + t.draw(4);
                let at = t.draw(k);
                let mut links = Vec::new();
                for j in 0..k {
                    if j == at {
                        links.push(match msg.clone() {
                            m @ (Msg::Call { .. } | Msg::BadKey { .. } | Msg::FailAfter { .. }) => m,
                            other => Msg::Call { len: 0, n: 1, oneway: false, more: false }.with_wire_len(other.wire_len()),
                        });
                    } else if t.chance(bad_rate, 24) {
                        links.push(Msg::FailAfter { k: t.draw(4) + if t.draw(4) == 3 { 8 } else { 0 }, len: t.draw(40) });
                    } else {
                        links.push(Msg::Call { len: t.draw(30), n: t.draw(1000) as u32, oneway: t.draw(3) == 2, more: t.draw(4) == 3 });
                    }
                }
                Op::Chain(links)
            }
        };
        match &op {
            Op::Chain(links) => {
                let mut all = true;
                for m in links {
                    if m.is_bad() {
                        all = false;
                        break;
                    }
                    st.enqueue(m.wire_len());
                }
                if all {
                    st.pos = 0;
                }
            }
            Op::Enqueue(m) if !m.is_bad() => st.enqueue(m.wire_len()),
            Op::Send(m) if !m.is_bad() => {
                st.enqueue(m.wire_len());
                st.pos = 0;
            }
            Op::Flush => st.pos = 0,
            _ => {}
        }
        ops.push(op);
    }
    ops.push(Op::Flush);
    ops
}

/// Systematic history: reach free space `f` exactly, then submit a message of size class `c`.
fn sys_history(f: usize, c: usize, kind: usize) -> Vec<Op> {
    let mk = |kind: usize| match kind % 3 {
        0 => Msg::Call { len: 0, n: 5, oneway: false, more: false },
        1 => Msg::Reply { len: 0, id: 9, continues: Some(true) },
        _ => Msg::ErrBad { len: 0, code: 3 },
    };
    let mut ops = Vec::new();
    let mut st = Steer { pos: 0, cap: 256 };
    // grow the buffer, flush
    let big = mk(kind + 1).with_wire_len(f + 300);
    st.enqueue(big.wire_len());
    st.pos = 0;
    ops.push(Op::Send(big));
    // filler that leaves exactly f bytes free
    let filler = mk(kind + 2).with_wire_len(st.cap - f - 1);
    st.enqueue(filler.wire_len());
    ops.push(Op::Enqueue(filler));
    debug_assert_eq!(st.free(), f);
    let test = match c {
        0 => mk(kind).with_wire_len(0),
        1 => mk(kind).with_wire_len(f.saturating_sub(1)),
        2 => mk(kind).with_wire_len(f),
        3 => mk(kind).with_wire_len(f + 1),
        4 => mk(kind).with_wire_len(f + 256 * 2 + 7),
        5 => Msg::BadKey { len: f + 20 },
        6 => Msg::FailAfter { k: 2, len: f / 2 + 1 },
        // panics after two fields
        _ => Msg::FailAfter { k: 10, len: f / 2 + 1 },
    };
    ops.push(Op::Enqueue(test));
    ops.push(Op::Enqueue(mk(kind).with_wire_len(0)));
    ops.push(Op::Flush);
    ops
}

async fn do_enqueue_or_send(conn: &mut Connection<crate::world::SimSocket>, m: &Msg, send: bool) -> zlink_core::Result<()> {
    match m {
        Msg::Call { len, n, oneway, more } => {
            let c = Call::new(MethOut::Echo { text: padstr(*len, *n), n: *n }).set_oneway(*oneway).set_more(*more);
            // odd ids go through the write half, even ones through the connection's own methods
            match (send, n % 2 == 1) {
                (true, false) => conn.send_call(&c).await,
                (true, true) => conn.write_mut().send_call(&c).await,
                (false, false) => conn.enqueue_call(&c),
                (false, true) => conn.write_mut().enqueue_call(&c),
            }
        }
        Msg::Reply { len, id, continues } => {
            let r = Reply::new(Some(RepOut { id: *id, pad: padstr(*len, *id) })).set_continues(*continues);
            conn.send_reply(&r).await
        }
        Msg::ErrBad { len, code } => conn.send_error(&ErrOut::Bad { code: *code, why: padstr(*len, *code as u32) }).await,
        Msg::ErrGone => conn.send_error(&ErrOut::Gone).await,
        Msg::Zoo { v, as_kind } => {
            let p = ZooP { v: v.clone() };
            match (as_kind, send) {
                (0, true) => conn.send_call(&Call::new(ZooCall { method: "org.example.Zoo", parameters: p })).await,
                (0, false) => conn.enqueue_call(&Call::new(ZooCall { method: "org.example.Zoo", parameters: p })),
                (1, _) => conn.send_reply(&Reply::new(Some(p))).await,
                _ => conn.send_error(&ZooErr { error: "org.example.ZooErr", parameters: p }).await,
            }
        }
        Msg::BadKey { len } => {
            let mut m = BTreeMap::new();
            m.insert((1, 2), 3);
            let v = BadKey { lead: padstr(*len, 1), m };
            if send {
                conn.send_reply(&Reply::new(Some(v))).await
            } else {
                conn.enqueue_call(&Call::new(v))
            }
        }
        Msg::FailAfter { k, len } => {
            if send {
                // (a panic inside an asynchronous send would unwind through the executor: the
                // panicking variant is used for synchronous submissions only)
                let v = FailAfter { k: *k % 8, pad: padstr(*len, 2) };
                conn.send_error(&v).await
            } else {
                let v = FailAfter { k: *k, pad: padstr(*len, 2) };
                contain(|| conn.enqueue_call(&Call::new(v)))
            }
        }
    }
}

/// Run a synchronous submission whose value may panic half-way through its serialisation. The
/// unwinding is contained (as `catch_unwind`, or a task that dies while others share the
/// connection, would do) and reported to the model as one more kind of refusal: no bytes, earlier
/// messages and the connection unaffected.
fn contain<T>(f: impl FnOnce() -> zlink_core::Result<T>) -> zlink_core::Result<T> {
    match std::panic::catch_unwind(std::panic::AssertUnwindSafe(f)) {
        Ok(r) => r,
        Err(_) => Err(zlink_core::Error::Json(<serde_json::Error as serde::de::Error>::custom("the value panicked while being serialised"))),
    }
}

type OutChain<'c> = zlink_core::connection::Chain<'c, crate::world::SimSocket, Value, Value>;

fn chain_start<'c>(conn: &'c mut Connection<crate::world::SimSocket>, m: &Msg) -> zlink_core::Result<OutChain<'c>> {
    match m {
        Msg::Call { len, n, oneway, more } => conn.chain_call(&Call::new(MethOut::Echo { text: padstr(*len, *n), n: *n }).set_oneway(*oneway).set_more(*more)),
        Msg::BadKey { len } => {
            let mut m = BTreeMap::new();
            m.insert((1, 2), 3);
            conn.chain_call(&Call::new(BadKey { lead: padstr(*len, 1), m }))
        }
        Msg::FailAfter { k, len } => contain(|| conn.chain_call(&Call::new(FailAfter { k: *k, pad: padstr(*len, 2) }))),
        _ => unreachable!("chains are made of calls"),
    }
}

fn chain_append<'c>(chain: OutChain<'c>, m: &Msg) -> zlink_core::Result<OutChain<'c>> {
    match m {
        Msg::Call { len, n, oneway, more } => chain.append(&Call::new(MethOut::Echo { text: padstr(*len, *n), n: *n }).set_oneway(*oneway).set_more(*more)),
        Msg::BadKey { len } => {
            let mut m = BTreeMap::new();
            m.insert((1, 2), 3);
            chain.append(&Call::new(BadKey { lead: padstr(*len, 1), m }))
        }
        Msg::FailAfter { k, len } => contain(|| chain.append(&Call::new(FailAfter { k: *k, pad: padstr(*len, 2) }))),
        _ => unreachable!("chains are made of calls"),
    }
}

/// Build the chain link by link and send it. Returns the outcome (None = the send was abandoned)
/// and how many links were accepted before a refusal ended the chain.
async fn do_chain(world: &World, conn: &mut Connection<crate::world::SimSocket>, links: &[Msg]) -> (Option<zlink_core::Result<()>>, usize) {
    let mut chain = match chain_start(conn, &links[0]) {
        Ok(c) => c,
        Err(e) => return (Some(Err(e)), 0),
    };
    let mut accepted = 1;
    for m in &links[1..] {
        chain = match chain_append(chain, m) {
            Ok(c) => c,
            Err(e) => return (Some(Err(e)), accepted),
        };
        accepted += 1;
    }
    // the reply stream is not polled (nobody answers in this world); dropping it is legal
    let r = cancellable(world, chain.send()).await;
    (r.map(|x| x.map(|_stream| ())), accepted)
}

fn describe(ops: &[Op]) -> Value {
    json!(ops
        .iter()
        .map(|o| match o {
            Op::Flush => "flush".to_string(),
            Op::Rejoin => "split + join".to_string(),
            Op::Chain(l) => format!("chain [{}] + send", l.iter().map(short).collect::<Vec<_>>().join(", ")),
            Op::Enqueue(m) => format!("enqueue {}", short(m)),
            Op::Send(m) => format!("send {}", short(m)),
        })
        .collect::<Vec<_>>())
}

fn short(m: &Msg) -> String {
    match m {
        Msg::BadKey { len } => format!("BadKey(lead {len} bytes) [refused: tuple map key]"),
        Msg::FailAfter { k, len } => format!("FailAfter(k={k}, pad {len} bytes) [refused by the value]"),
        Msg::Zoo { v, as_kind } => {
            LIVE_FROZEN.with(|f| f.set(true));
            let text = serde_json::to_string(v).unwrap_or_default();
            LIVE_FROZEN.with(|f| f.set(false));
            format!("Zoo as {} {}", ["call", "reply", "error"][*as_kind as usize % 3], text)
        }
        other => format!("{} ({} wire bytes)", format!("{other:?}").split(' ').next().unwrap_or(""), other.wire_len()),
    }
}

/// Did the transport of this run report a write error (of whatever kind) so far?
fn injected_write_errors(world: &World) -> bool {
    world.borrow().err_kind.is_some()
}

impl Prop for Outbound {
    fn id(&self) -> &'static str {
        "C02"
    }

    fn run(&self, world: &World, want_sample: bool) -> Verdict {
        LIVE.with(|c| c.set(40));
        let (ops, mode) = {
            let mut w = world.borrow_mut();
            if w.tape.draw(8) as u32 == SYS_MODE {
                let f = w.tape.draw(601);
                let c = w.tape.draw(8);
                let kind = w.tape.draw(3);
                w.cfg = Cfg::plain();
                (sys_history(f, c, kind), format!("systematic free={f} class={c} kind={kind}"))
            } else {
                w.cfg = Cfg::swarm(&mut w.tape);
                let ops = gen_history(&mut w.tape);
                let write_fault = w.tape.draw(6) == 5;
                w.cancel = if w.cfg.write_stall && w.tape.draw(3) == 2 { CancelPlan::Prob(1, 3) } else { CancelPlan::Never };
                let mode = format!("seeded cfg={:?} write_fault={write_fault} cancel={:?}", w.cfg, w.cancel);
                if write_fault {
                    // one write fails (all-or-nothing), later writes succeed again
                    let k = w.tape.draw(6);
                    w.stats.entry("armed.write_error").or_insert(0);
                    // encoded through write_err_from/until below
                    w.scenario = Some(json!({"write_error_at": k}));
                }
                (ops, mode)
            }
        };
        let (rd, wr) = {
            let mut w = world.borrow_mut();
            let rd = w.scripted_pipe(&[], false);
            let wr = w.sink_pipe();
            if let Some(s) = w.scenario.take() {
                let k = s["write_error_at"].as_u64().unwrap() as usize;
                w.pipes[wr].write_err_from = Some(k);
                w.pipes[wr].write_err_until = Some(k + 1);
            }
            w.step_cap = 200_000 + 40 * ops.len() as u64;
            (rd, wr)
        };
        if want_sample || world.borrow().want_sample {
            world.borrow_mut().scenario = Some(json!({"mode": mode, "history": describe(&ops)}));
        }

        let verdict: Rc<RefCell<Option<(String, String)>>> = Rc::new(RefCell::new(None));
        {
            let mut conn = Connection::new(W::socket(world, rd, wr));
            let mut ex = Exec::new();
            let world2 = world.clone();
            let verdict2 = verdict.clone();
            let ops2 = ops.clone();
            ex.spawn(async move {
                // reference writer: frames accepted and not yet handed to the transport
                let mut pending: Vec<Value> = Vec::new();
                let mut log_seen = 0usize;
                let mut writes_seen = 0usize;
                for (i, op) in ops2.iter().enumerate() {
                    let mut chain_accepted: Vec<Value> = Vec::new();
                    let (res, flushes, bad, msg) = match op {
                        Op::Flush => {
                            if i % 2 == 1 {
                                (cancellable(&world2, conn.write_mut().flush()).await, true, false, None)
                            } else {
                                (cancellable(&world2, conn.flush()).await, true, false, None)
                            }
                        }
                        Op::Rejoin => {
                            let (r, w) = conn.split();
                            conn = Connection::join(r, w);
                            world2.borrow_mut().stat("api.split_and_join_between_operations");
                            (Some(Ok(())), false, false, None)
                        }
                        Op::Chain(links) => {
                            let (r, accepted) = do_chain(&world2, &mut conn, links).await;
                            chain_accepted = links[..accepted].iter().map(|m| m.expected()).collect();
                            let refused = accepted < links.len();
                            world2.borrow_mut().stat(if refused { "api.chain_ended_by_refused_link" } else { "api.chain_built_and_sent" });
                            (r, !refused, refused, None)
                        }
                        Op::Enqueue(m) => match m {
                            // only calls can be enqueued through the public API; other message
                            // kinds are sent
                            Msg::Call { .. } | Msg::BadKey { .. } | Msg::FailAfter { .. } | Msg::Zoo { as_kind: 0, .. } => {
                                (Some(do_enqueue_or_send(&mut conn, m, false).await), false, m.is_bad(), Some(m))
                            }
                            _ => (cancellable(&world2, do_enqueue_or_send(&mut conn, m, true)).await, true, m.is_bad(), Some(m)),
                        },
                        Op::Send(m) => (cancellable(&world2, do_enqueue_or_send(&mut conn, m, true)).await, true, m.is_bad(), Some(m)),
                    };
                    if let Some(Msg::Zoo { .. }) = msg {
                        world2.borrow_mut().stat("payload.shape_zoo_messages");
                    }
                    // links of a chain that were accepted are enqueued whatever happens to the rest
                    pending.extend(chain_accepted);
                    let fail = |class: &str, msg: String| {
                        let mut v = verdict2.borrow_mut();
                        if v.is_none() {
                            *v = Some((format!("C02/{class}"), format!("op {i} ({}): {msg}", match op { Op::Flush => "flush".to_string(), Op::Rejoin => "split + join".to_string(), Op::Chain(l) => format!("chain of {} links + send", l.len()), Op::Enqueue(m) => format!("enqueue {}", short(m)), Op::Send(m) => format!("send {}", short(m)) })));
                        }
                    };
                    // --- model step
                    let mut expect_write = false;
                    let mut write_failed = false;
                    let mut cancelled = false;
                    match (&res, bad) {
                        (Some(Err(zlink_core::Error::Json(_))), true) => {
                            world2.borrow_mut().stat("fault.serializer_refused_message");
                            world2.borrow_mut().nontrivial = true;
                        }
                        (other, true) => {
                            fail("refused-message-not-reported", format!("a message whose serialisation is refused returned {other:?}"));
                            return;
                        }
                        (None, false) => {
                            // abandoned while the transport write was pending: the stub's write is
                            // all-or-nothing, so nothing reached the transport.
                            cancelled = true;
                            if let Some(m) = msg {
                                pending.push(m.expected());
                            }
                        }
                        (Some(Ok(())), false) => {
                            if let Some(m) = msg {
                                pending.push(m.expected());
                            }
                            if flushes && !pending.is_empty() {
                                expect_write = true;
                            }
                        }
                        (Some(Err(zlink_core::Error::Io(_) | zlink_core::Error::SocketWrite | zlink_core::Error::BufferOverflow)), false) if flushes && injected_write_errors(&world2) => {
                            write_failed = true;
                            if let Some(m) = msg {
                                pending.push(m.expected());
                            }
                        }
                        (Some(Err(e)), false) => {
                            fail("unexpected-error", format!("{e:?}"));
                            return;
                        }
                    }
                    // --- what reached the transport during this op
                    let w = world2.borrow();
                    let pipe = &w.pipes[wr];
                    let new_writes = pipe.write_lens.len() - writes_seen;
                    let new_bytes = &pipe.log[log_seen..];
                    if !expect_write {
                        if new_writes != 0 || !new_bytes.is_empty() {
                            let why = if write_failed { "a failed write" } else if cancelled { "an abandoned op" } else if flushes { "a flush with nothing enqueued / a refused message" } else { "an enqueue" };
                            fail("unexpected-write", format!("{why} put {} bytes on the transport in {new_writes} write(s)", new_bytes.len()));
                            return;
                        }
                    } else {
                        if new_writes != 1 {
                            fail("not-one-write", format!("{} pending frames were handed over in {new_writes} writes", pending.len()));
                            return;
                        }
                        if new_bytes.last() != Some(&0) {
                            fail("bad-framing", format!("write does not end with the terminator: {:?}", String::from_utf8_lossy(&new_bytes[new_bytes.len().saturating_sub(20)..])));
                            return;
                        }
                        let frames: Vec<&[u8]> = new_bytes[..new_bytes.len() - 1].split(|b| *b == 0).collect();
                        if frames.len() != pending.len() {
                            fail("bad-framing", format!("{} frames on the wire for {} accepted messages", frames.len(), pending.len()));
                            return;
                        }
                        for (j, (f, want)) in frames.iter().zip(pending.iter()).enumerate() {
                            let mut want = want.clone();
                            norm_live(&mut want);
                            let want = &want;
                            match serde_json::from_slice::<Value>(f).map(|mut v| {
                                norm_live(&mut v);
                                v
                            }) {
                                Ok(v) if v == *want => {}
                                Ok(v) => {
                                    fail("wrong-content", format!("frame {j} is {v} but {want} was submitted"));
                                    return;
                                }
                                Err(e) => {
                                    fail("bad-framing", format!("frame {j} is not one JSON document ({e}): {:?}", String::from_utf8_lossy(&f[..f.len().min(80)])));
                                    return;
                                }
                            }
                        }
                        pending.clear();
                    }
                    writes_seen = pipe.write_lens.len();
                    log_seen = pipe.log.len();
                }
                if !pending.is_empty() {
                    // the history ends with a flush; only a failed/abandoned last flush leaves frames
                    world2.borrow_mut().stat("runs_ending_with_unflushed_frames_after_fault");
                }
            });
            ex.run(world);
        }
        if let Some(v) = verdict.borrow_mut().take() {
            return Err(v);
        }
        Ok(world.borrow().scenario.clone())
    }

    fn systematic(&self, tier: Tier) -> Vec<Vec<u32>> {
        let mut tapes = Vec::new();
        let kinds: &[u32] = if tier == Tier::Quick { &[0] } else { &[0, 1, 2] };
        for f in 0..=600u32 {
            for c in 0..8u32 {
                for k in kinds {
                    tapes.push(vec![SYS_MODE, f, c, *k]);
                }
            }
        }
        tapes
    }

    fn random_runs(&self, tier: Tier) -> u64 {
        match tier {
            Tier::Quick => 120_000,
            Tier::Thorough => 3_000_000,
        }
    }

    fn rule(&self) -> String {
        "Each execution = one history of up to 31 (one in sixteen: up to 400; one in thirty-two: with up to three messages of 1..90 kB around 2^15 / 2^16 and far growth steps) enqueue_call / send_call / send_reply / send_error / flush operations on a real Connection whose write half records every write call. Message sizes are aimed (by a steering model of the buffer) at: minimal, terminator on the last free byte, document ending exactly at the buffer end, one byte over, several 256-byte growth steps over, random. Refused serialisations (tuple map key; a value that errors after k fields, with partial output before and after a growth step) occur at any position. Transport: write suspension, one failing write, flush/send futures abandoned while the write is pending. Systematic part: every free-space value 0..=600 x 7 size/refusal classes. Non-trivial = a refusal, stall, write failure or cancellation actually happened; distinct = distinct event-sequence hash.".into()
    }

    fn components(&self) -> Value {
        json!({
            "real": ["zlink_core::Connection", "WriteConnection::{enqueue_call, send_call, send_reply, send_error, flush, enqueue, grow_buffer}", "json_ser", "Call/Reply serialisers", "ReplyError derive output"],
            "stub": ["SimWriteHalf (ours, behind zlink's WriteHalf trait; all-or-nothing writes)", "executor"],
        })
    }

    fn assumptions(&self) -> Vec<String> {
        vec![
            "frames are compared by JSON value with the submitted message (so this check does not claim byte identity with serde_json, which is C03)".into(),
            "the stub write is all-or-nothing: a failed or abandoned write puts nothing on the transport, so re-sending the still-pending frames later is correct (partial writes are C19's subject)".into(),
        ]
    }
}
