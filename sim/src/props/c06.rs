//! C06 — a chain's reply stream yields exactly the replies its calls are owed.
//! C11 — data borrowed from replies already yielded stays intact while later ones are obtained.
//!
//! Both drive the real `chain_call(..).append(..)…send()` stream (and a `#[proxy]` streaming
//! method) against a scripted, conforming server. The whole check (`c06_body.rs`) is compiled
//! twice, for two instantiations of the library's generic reply / error parameters; the first
//! value on the tape picks the instantiation of a run.

use crate::runner::{Prop, Tier, Verdict};
use crate::world::World;
use serde_json::Value;

/// The everyday instantiation: the reply type owns-or-borrows (`Cow<str>`, drop glue), the error
/// type only borrows (`&str`, no drop glue).
pub mod inst_a {
    mod types {
        use serde::Deserialize;
        use zlink_core::ReplyError;
        #[derive(Debug, Deserialize)]
        pub(super) struct RepIn<'a> {
            pub id: u32,
            // zero-copy when the peer wrote the string without escapes, owned otherwise
            #[serde(borrow)]
            pub tag: std::borrow::Cow<'a, str>,
        }

        #[derive(Debug, ReplyError)]
        #[zlink(interface = "org.example", crate = "zlink_core")]
        pub(super) enum ErrIn<'a> {
            Nope,
            Bad { code: i32, why: &'a str },
        }
    }
    use types::{ErrIn, RepIn};
    include!("c06_body.rs");
}

/// Both the reply and the error type have drop glue (`Vec`, `Option<String>`) *and* borrow from the
/// receive buffer.
pub mod inst_b {
    mod types {
        use serde::Deserialize;
        use zlink_core::ReplyError;
    #[derive(Debug, Deserialize)]
        pub(super) struct RepIn<'a> {
            pub id: u32,
            #[serde(borrow)]
            pub tag: std::borrow::Cow<'a, str>,
            // never on the wire: it only gives the type a second owning-and-borrowing field
            #[serde(borrow, default)]
            #[allow(dead_code)]
            pub extra: Vec<&'a str>,
        }
    
        #[derive(Debug, ReplyError)]
        #[zlink(interface = "org.example", crate = "zlink_core")]
        pub(super) enum ErrIn<'a> {
            Nope,
            Bad {
                code: i32,
                why: &'a str,
                #[allow(dead_code)]
                note: Option<String>,
            },
        }
    }
    use types::{ErrIn, RepIn};
    include!("c06_body.rs");
}

pub struct ChainProp {
    pub borrowed: bool,
}

impl Prop for ChainProp {
    fn id(&self) -> &'static str {
        inst_a::Inst { borrowed: self.borrowed }.id()
    }
    fn run(&self, world: &World, want_sample: bool) -> Verdict {
        let inst = world.borrow_mut().tape.draw(2);
        if inst == 0 {
            world.borrow_mut().stat("instantiation.reply_with_drop_glue_error_without");
            inst_a::Inst { borrowed: self.borrowed }.run(world, want_sample)
        } else {
            world.borrow_mut().stat("instantiation.reply_and_error_both_own_and_borrow");
            inst_b::Inst { borrowed: self.borrowed }.run(world, want_sample)
        }
    }
    fn systematic(&self, tier: Tier) -> Vec<Vec<u32>> {
        let base = inst_a::Inst { borrowed: self.borrowed }.systematic(tier);
        let mut out = Vec::with_capacity(base.len() * 2);
        for inst in 0..2u32 {
            for t in &base {
                let mut v = vec![inst];
                v.extend_from_slice(t);
                out.push(v);
            }
        }
        out
    }
    fn random_runs(&self, tier: Tier) -> u64 {
        inst_a::Inst { borrowed: self.borrowed }.random_runs(tier)
    }
    fn rule(&self) -> String {
        format!("{} The check is compiled for two instantiations of the reply / error type parameters (reply with drop glue + error without; both with drop glue and both borrowing), chosen by the first value on the tape; the systematic part runs for both.", inst_a::Inst { borrowed: self.borrowed }.rule())
    }
    fn components(&self) -> Value {
        inst_a::Inst { borrowed: self.borrowed }.components()
    }
    fn assumptions(&self) -> Vec<String> {
        inst_a::Inst { borrowed: self.borrowed }.assumptions()
    }
}
