use crate::{
    exec::Exec,
    runner::{Prop, Tier, Verdict},
    tape::Tape,
    world::{Cfg, Chunk, Gate, SimSocket, World, W},
};
use futures_util::{pin_mut, stream::Stream, StreamExt};
use serde::{Deserialize, Serialize};
use serde_json::{json, Value};
use std::{cell::RefCell, rc::Rc};
use zlink_core::{proxy, Call, Connection, ReplyError};

pub struct Inst {
    pub borrowed: bool,
}

const SYS_MODE: u32 = 7;
const SERIAL_MODE: u32 = 6;

#[derive(Debug, Serialize)]
#[serde(tag = "method", content = "parameters")]
enum MethOut {
    #[serde(rename = "org.example.Get")]
    Get { id: u32 },
}

#[proxy(interface = "org.example", crate = "zlink_core")]
trait ExampleProxy {
    #[zlink(more)]
    async fn watch(
        &mut self,
        id: u32,
    ) -> zlink_core::Result<impl Stream<Item = zlink_core::Result<Result<RepIn<'_>, ErrIn<'_>>>>>;
}

#[derive(Debug, Clone, Copy, PartialEq)]
enum CallKind {
    Plain,
    Oneway,
    More,
}

/// One owed reply as scripted: (is_error, id/code, tag/why, continues flag as written).
#[derive(Debug, Clone, PartialEq)]
struct Owed {
    /// An `org.varlink.service.InvalidParameter` error: a conforming answer that the client API
    /// reports as a connection-level error (the reply stream ends there).
    service_error: bool,
    error: bool,
    unit_error: bool,
    num: i64,
    text: String,
    continues: Option<bool>,
    /// How the scripted server spells the frame: 0 = serde_json's compact output (members in
    /// alphabetical order); 1 = the other member order (`parameters` before `error` /
    /// `continues`, as Go's encoder writes it) with blanks after separators; 2 = every `/` in
    /// the text escaped as `\/`; 3 = both; +4 = member names written with an escape (`"\u0065rror"`).
    wire: u8,
}

impl Owed {
    fn frame(&self) -> Vec<u8> {
        if self.wire != 0 {
            // hand-written spelling; the text is lower-case ASCII plus '/', so only the solidus
            // is ever escaped
            // (declared errors keep their text unescaped: their `why` is a zero-copy `&str`, which no
            // JSON decoder can fill from an escaped string)
            let text = if self.wire & 2 != 0 && (!self.error || self.service_error) { self.text.replace('/', "\\/") } else { self.text.clone() };
            let (sp, reorder) = if self.wire & 1 == 1 { (" ", true) } else { ("", false) };
            let params = if self.service_error {
                format!("{{\"parameter\":{sp}\"{text}\"}}")
            } else if self.error {
                format!("{{\"code\":{sp}{},{sp}\"why\":{sp}\"{text}\"}}", self.num)
            } else {
                format!("{{\"id\":{sp}{},{sp}\"tag\":{sp}\"{text}\"}}", self.num)
            };
            let head = if self.service_error {
                Some("\"error\":\"org.varlink.service.InvalidParameter\"".to_string())
            } else if self.error && self.unit_error {
                return if self.wire & 4 != 0 {
                    b"{ \"\\u0065rror\" : \"org.example.Nope\" }".to_vec()
                } else if self.wire & 8 != 0 {
                    b"{ \"x-note\" : { \"continues\" : true }, \"error\" : \"org.example.Nope\" }".to_vec()
                } else {
                    b"{ \"error\" : \"org.example.Nope\" }".to_vec()
                };
            } else if self.error {
                Some("\"error\":\"org.example.Bad\"".to_string())
            } else {
                self.continues.map(|c| format!("\"continues\":{sp}{c}"))
            };
            let p = format!("\"parameters\":{sp}{params}");
            // bit 8: liberties with members the receiver may not care about — a final reply says
            // `"continues": null`, and there is a member zlink does not know (nested content that
            // looks like envelope members must not be taken for them)
            let head = if self.wire & 8 != 0 && head.is_none() && !self.error { Some(format!("\"continues\":{sp}null")) } else { head };
            let extra = if self.wire & 8 != 0 { Some(format!("\"x-note\":{sp}{{\"error\":\"org.example.Nope\",\"continues\":true,\"parameters\":[null,{{}}]}}")) } else { None };
            let s = match (head, reorder) {
                (Some(h), true) => format!("{{{p},{sp}{h}}}"),
                (Some(h), false) => format!("{{{h},{p}}}"),
                (None, _) => format!("{{{p}}}"),
            };
            let s = match (extra, self.num % 2 == 0) {
                (Some(x), true) => format!("{{{x},{sp}{}", &s[1..]),
                (Some(x), false) => format!("{},{sp}{x}}}", &s[..s.len() - 1]),
                (None, _) => s,
            };
            // bit 4: member names written with an escape
            let s = if self.wire & 4 != 0 {
                s.replacen("\"error\"", "\"\\u0065rror\"", 1).replacen("\"continues\"", "\"continu\\u0065s\"", 1).replacen("\"parameters\"", "\"p\\u0061rameters\"", 1)
            } else {
                s
            };
            return s.into_bytes();
        }
        let v = if self.service_error {
            json!({"error": "org.varlink.service.InvalidParameter", "parameters": {"parameter": self.text}})
        } else if self.error {
            if self.unit_error {
                json!({"error": "org.example.Nope"})
            } else {
                json!({"error": "org.example.Bad", "parameters": {"code": self.num, "why": self.text}})
            }
        } else {
            let mut v = json!({"parameters": {"id": self.num, "tag": self.text}});
            if let Some(c) = self.continues {
                v["continues"] = json!(c);
            }
            v
        };
        serde_json::to_vec(&v).unwrap()
    }

    /// How a yielded item is rendered for comparison.
    fn render(&self) -> String {
        if self.service_error {
            format!("SvcErr(InvalidParameter {:?})", self.text)
        } else if self.error {
            if self.unit_error {
                "Err(Nope)".into()
            } else {
                format!("Err(Bad {} {:?})", self.num, self.text)
            }
        } else {
            format!("Ok({} {:?} continues={:?})", self.num, self.text, self.continues)
        }
    }
}

fn render_item(item: &zlink_core::Result<zlink_core::reply::Result<RepIn<'_>, ErrIn<'_>>>) -> String {
    match item {
        Ok(Ok(r)) => match r.parameters() {
            Some(p) => format!("Ok({} {:?} continues={:?})", p.id, p.tag, r.continues()),
            None => format!("Ok(<no parameters> continues={:?})", r.continues()),
        },
        Ok(Err(ErrIn::Nope)) => "Err(Nope)".into(),
        Ok(Err(ErrIn::Bad { code, why, .. })) => format!("Err(Bad {code} {why:?})"),
        Err(zlink_core::Error::VarlinkService(zlink_core::varlink_service::Error::InvalidParameter { parameter })) => format!("SvcErr(InvalidParameter {parameter:?})"),
        Err(e) => format!("TransportErr({e:?})"),
    }
}

/// A call the serializer refuses (tuple map key): contributes nothing to the connection.
#[derive(Debug, Serialize)]
struct Refused {
    lead: u32,
    m: std::collections::BTreeMap<(i32, i32), i32>,
}

fn refused_call() -> Call<Refused> {
    let mut m = std::collections::BTreeMap::new();
    m.insert((1, 2), 3);
    Call::new(Refused { lead: 7, m })
}

#[derive(Debug, Clone)]
struct Scenario {
    calls: Vec<CallKind>,
    /// per call: it also carries the protocol's third flag, `upgrade` (which changes nothing about
    /// what the call is owed)
    upgrades: Vec<bool>,
    owed: Vec<Owed>,
    foreign: Vec<Owed>,
    /// Use the proxy-generated streaming method instead of a chain (single `more` call).
    via_proxy: bool,
    /// Refused submissions on the same connection before the chain is built (1 = a refused
    /// `enqueue_call`, 2 = a chain whose first call is refused); they leave nothing behind.
    /// 3 = a chain whose *second* link is refused: its first call stays enqueued (as the statement
    /// of C02 demands), the application flushes it and receives its reply by hand.
    pre_refused: Vec<u8>,
    /// Drop the reply stream after this many items (chains only): the replies it has not taken
    /// stay on the connection and must come out of ordinary receives, in order, followed by the
    /// frames of the later exchange.
    abandon_after: Option<usize>,
}

fn tag(t: &mut Tape, style: usize, salt: usize) -> String {
    let n = match style {
        0 => t.draw(8),
        1 => 200 + t.draw(120),  // forces one growth step
        2 => 600 + t.draw(600),  // several
        4 => 900 + t.draw(400),  // long chains of these make bursts of 100 kB and more
        _ => [t.draw(8), 200 + t.draw(120), t.draw(40)][t.draw(3)],
    };
    let alphabet = b"abcdefghijklmnopqrstuvwxyz";
    // one text in three is path-like (a peer may write its '/' as "\\/")
    (0..n).map(|i| if salt % 3 == 1 && i % 4 == 3 { '/' } else { alphabet[(i + salt) % 26] as char }).collect()
}

fn gen_scenario(t: &mut Tape, borrowed: bool) -> Scenario {
    let via_proxy = t.draw(5) == 4;
    let size_style = t.draw(4);
    // scale swarm: one chain in sixteen is long (up to 150 calls: beyond any 8/16/32/64-entry
    // table or bitmask), and one in sixteen has `more` calls with dozens of continuing replies
    let scale = t.draw(16);
    // ... and one chain in a thousand has a little more than 2^16 calls (C06 only: C11 re-reads
    // every held item after every further one)
    let wide = !via_proxy && !borrowed && scale == 13 && t.draw(64) == 63;
    let n = if via_proxy {
        1
    } else if wide {
        66_800 + t.draw(300)
    } else if scale == 15 {
        20 + t.draw(131)
    } else {
        1 + t.draw(6)
    };
    let max_cont = if scale == 14 { 200 } else { 4 };
    let size_style = if wide { 0 } else if scale >= 14 && t.draw(2) == 1 { 4 } else { size_style };
    let mut calls = Vec::new();
    let mut owed = Vec::new();
    let mut salt = 0usize;
    for i in 0..n {
        let kind = if via_proxy {
            CallKind::More
        } else if borrowed {
            // C11 needs replies to hold: no oneway-only chains
            [CallKind::Plain, CallKind::More, CallKind::Plain, CallKind::Oneway][t.draw(4)]
        } else {
            // (a very long chain has few oneway calls: its owed replies must exceed 2^16 too)
            if wide {
                if i % 50 == 0 {
                    CallKind::Oneway
                } else {
                    [CallKind::Plain, CallKind::More][t.draw(2)]
                }
            } else {
                [CallKind::Plain, CallKind::Oneway, CallKind::More][t.draw(3)]
            }
        };
        calls.push(kind);
        let mut final_reply = |t: &mut Tape, owed: &mut Vec<Owed>, salt: &mut usize| {
            *salt += 1;
            match t.draw(5) {
                0 => owed.push(Owed { service_error: false, error: true, unit_error: false, num: i as i64, text: tag(t, size_style, *salt), continues: None, wire: 0 }),
                1 => owed.push(Owed { service_error: false, error: true, unit_error: true, num: 0, text: String::new(), continues: None, wire: 0 }),
                2 => owed.push(Owed { service_error: false, error: false, unit_error: false, num: i as i64, text: tag(t, size_style, *salt), continues: Some(false), wire: 0 }),
                _ => owed.push(Owed { service_error: false, error: false, unit_error: false, num: i as i64, text: tag(t, size_style, *salt), continues: None, wire: 0 }),
            }
        };
        match kind {
            CallKind::Oneway => {}
            CallKind::Plain => final_reply(t, &mut owed, &mut salt),
            CallKind::More => {
                let k = t.draw(max_cont);
                for _ in 0..k {
                    salt += 1;
                    owed.push(Owed { service_error: false, error: false, unit_error: false, num: i as i64, text: tag(t, size_style, salt), continues: Some(true), wire: 0 });
                }
                final_reply(t, &mut owed, &mut salt);
            }
        }
    }
    let mut foreign = Vec::new();
    for j in 0..t.draw(3) {
        foreign.push(Owed { service_error: false, error: false, unit_error: false, num: 900 + j as i64, text: tag(t, 0, 77 + j), continues: None, wire: 0 });
    }
    // Spelling of each frame: mostly serde_json's; in one scenario of three every frame picks one
    // of the four spellings.
    if t.draw(3) == 2 {
        for o in owed.iter_mut().chain(foreign.iter_mut()) {
            o.wire = t.draw(16) as u8;
        }
    }
    // One scenario in six: a reply is an org.varlink.service error. For C06 it answers the last
    // reply-bearing call (the stream ends at such an error; whether it should go on afterwards is
    // not settled by the statement); for C11, which only judges held data, it may sit anywhere.
    if t.draw(6) == 5 && !owed.is_empty() {
        let at = if borrowed { t.draw(owed.len()) } else { owed.len() - 1 };
        if borrowed || owed[at].continues != Some(true) {
            owed[at].service_error = true;
            owed[at].error = false;
            if owed[at].text.is_empty() {
                owed[at].text = "p".into();
            }
        }
    }
    let mut pre_refused = Vec::new();
    if t.draw(4) == 3 {
        for _ in 0..1 + t.draw(2) {
            pre_refused.push(1 + t.draw(3) as u8);
        }
    }
    let abandon_after = if !via_proxy && !borrowed && t.draw(5) == 4 { Some(t.draw(owed.len() + 1)) } else { None };
    let with_upgrades = !via_proxy && t.draw(4) == 3;
    let upgrades: Vec<bool> = (0..calls.len()).map(|i| with_upgrades && (i * 7 + calls.len()) % 3 == 0).collect();
    Scenario { calls, upgrades, owed, foreign, via_proxy, pre_refused, abandon_after }
}

fn clip(s: &str) -> String {
    if s.len() > 160 {
        format!("{}… ({} chars)", s.chars().take(160).collect::<String>(), s.len())
    } else {
        s.to_string()
    }
}

fn call_for(i: usize, k: CallKind) -> Call<MethOut> {
    Call::new(MethOut::Get { id: i as u32 }).set_oneway(k == CallKind::Oneway).set_more(k == CallKind::More)
}

fn expected_call_json(i: usize, k: CallKind, via_proxy: bool) -> Value {
    if via_proxy {
        return json!({"method": "org.example.Watch", "parameters": {"id": 7}, "more": true});
    }
    let mut v = json!({"method": "org.example.Get", "parameters": {"id": i}});
    match k {
        CallKind::Oneway => v["oneway"] = json!(true),
        CallKind::More => v["more"] = json!(true),
        CallKind::Plain => {}
    }
    v
}


/// *Serial history*: one long-lived connection used for dozens to hundreds of chains one after the
/// other (plus ordinary receives in between), so that anything the connection does every N-th
/// operation, or decides from what it saw many operations ago, is in the scenario space. Some
/// reply streams are dropped before they have yielded everything; what they leave behind is taken
/// by later streams or ordinary receives. Oracle: the frames handed out, by whatever means, are the
/// scripted server's frames, in order, each exactly once; a stream owed c replies yields c frames
/// and then ends; nothing is left over and nothing hangs once everything has been delivered.
fn run_serial(world: &World, id: &'static str, want_sample: bool) -> Verdict {
    #[derive(Clone, Debug)]
    struct ChainOp {
        kinds: Vec<CallKind>,
        /// items to take from the stream (== owed: poll once more and expect the end)
        take: usize,
        /// ordinary receives after the stream is gone
        recvs_after: usize,
    }
    let (ops, frames, closes, rd, wr) = {
        let mut w = world.borrow_mut();
        w.cfg = Cfg::swarm(&mut w.tape);
        let t = &mut w.tape;
        let n_chains = [40usize, 70, 100, 140, 200][t.draw(5)] + t.draw(30);
        // a few big replies early in the connection's life, small ones ever after (or: anywhere)
        let big_until = if t.draw(4) == 3 { n_chains } else { 2 + t.draw(n_chains / 3) };
        let n_big = t.draw(4);
        let big_at: Vec<usize> = (0..n_big).map(|_| t.draw(big_until)).collect();
        let mut ops = Vec::new();
        let mut frames: Vec<(Owed, usize)> = Vec::new(); // (reply, number of calls written before it is sent)
        let mut backlog = 0usize; // frames released to the client side but not yet taken
        let mut calls_written = 0usize;
        let leave_behind = t.draw(3); // 0: streams are always drained; 1: sometimes not; 2: often not
        for j in 0..n_chains {
            let n = 1 + t.draw(3);
            let kinds: Vec<CallKind> = (0..n).map(|_| if t.draw(3) == 2 { CallKind::Oneway } else { CallKind::Plain }).collect();
            calls_written += n;
            let owed = kinds.iter().filter(|k| **k == CallKind::Plain).count();
            for k in 0..owed {
                let text = if big_at.contains(&j) && k == 0 { tag(t, 2, j) + &tag(t, 4, j + 1).repeat(1 + t.draw(6)) } else { tag(t, 0, j + k) };
                frames.push((Owed { service_error: false, error: false, unit_error: false, num: (j * 4 + k) as i64, text, continues: if t.draw(2) == 0 { None } else { Some(false) }, wire: 0 }, calls_written));
            }
            backlog += owed;
            // a stream owed c replies can yield c frames (they may be an earlier chain's)
            let take = if leave_behind > 0 && owed > 0 && t.draw(if leave_behind == 2 { 2 } else { 6 }) == 0 { t.draw(owed) } else { owed };
            backlog -= take;
            let recvs_after = if backlog > 0 && t.draw(3) == 0 { t.draw(backlog + 1) } else { 0 };
            backlog -= recvs_after;
            ops.push(ChainOp { kinds, take, recvs_after });
        }
        let closes = t.draw(2) == 1;
        let rd = w.new_pipe();
        let wr = w.sink_pipe();
        let mut total = 0u64;
        for (o, after_calls) in &frames {
            let mut b = o.frame();
            b.push(0);
            total += b.len() as u64;
            w.push_seg(rd, &b, Some(Gate { pipe: wr, nuls: *after_calls, counter: 0 }));
        }
        // the peer may close once it has answered everything
        w.pipes[rd].close_when_done = closes;
        w.step_cap = 60 * (total + 40 * ops.len() as u64 + 400);
        w.stat("serial_history_runs");
        w.stat_add("serial_history_chains", ops.len() as u64);
        (ops, frames, closes, rd, wr)
    };
    if want_sample || world.borrow().want_sample {
        world.borrow_mut().scenario = Some(json!({
            "mode": "serial history on one connection",
            "chains": ops.len(),
            "first_chains": ops.iter().take(6).map(|o| format!("{o:?}")).collect::<Vec<_>>(),
            "reply_frames": frames.len(),
            "largest_reply": frames.iter().map(|f| f.0.frame().len()).max().unwrap_or(0),
            "peer_closes_at_the_end": closes,
        }));
    }
    let want: Vec<String> = frames.iter().map(|f| f.0.render()).collect();
    #[derive(Default)]
    struct Prog {
        got: Vec<String>,
        at: String,
        finished: bool,
        fail: Option<(String, String)>,
    }
    let prog: Rc<RefCell<Prog>> = Rc::new(RefCell::new(Prog::default()));
    {
        let mut conn = Connection::new(W::socket(world, rd, wr));
        let mut ex = Exec::new();
        let (prog2, world2, ops2, n_frames) = (prog.clone(), world.clone(), ops.clone(), frames.len());
        ex.spawn(async move {
            let mut id_no = 0usize;
            for (j, op) in ops2.iter().enumerate() {
                prog2.borrow_mut().at = format!("chain {j} ({:?}, take {})", op.kinds, op.take);
                // one connection in the life of which entry points alternate
                if j % 7 == 3 {
                    let (r, w) = conn.split();
                    conn = Connection::join(r, w);
                }
                let mut chain = match conn.chain_call::<MethOut, RepIn<'_>, ErrIn<'_>>(&call_for(id_no, op.kinds[0])) {
                    Ok(c) => c,
                    Err(e) => {
                        prog2.borrow_mut().fail = Some((format!("{id}/chain-refused"), format!("chain {j}: {e:?}")));
                        return;
                    }
                };
                id_no += 1;
                for k in &op.kinds[1..] {
                    chain = match chain.append(&call_for(id_no, *k)) {
                        Ok(c) => c,
                        Err(e) => {
                            prog2.borrow_mut().fail = Some((format!("{id}/chain-refused"), format!("chain {j}: {e:?}")));
                            return;
                        }
                    };
                    id_no += 1;
                }
                let owed = op.kinds.iter().filter(|k| **k == CallKind::Plain).count();
                match chain.send().await {
                    Ok(stream) => {
                        pin_mut!(stream);
                        for _ in 0..op.take {
                            match stream.next().await {
                                Some(it) => {
                                    let r = render_item(&it);
                                    world2.borrow_mut().ev("serial.item", j as u64, 0);
                                    prog2.borrow_mut().got.push(r);
                                }
                                None => {
                                    prog2.borrow_mut().fail = Some((format!("{id}/ended-early"), format!("chain {j} of a long-lived connection is owed {owed} replies; its stream ended before it had yielded {}", op.take)));
                                    return;
                                }
                            }
                        }
                        if op.take == owed {
                            if let Some(it) = stream.next().await {
                                prog2.borrow_mut().fail = Some((format!("{id}/consumed-foreign-frame"), format!("chain {j} of a long-lived connection is owed {owed} replies; its stream yielded one more: {}", clip(&render_item(&it)))));
                                return;
                            }
                        }
                    }
                    Err(e) => {
                        prog2.borrow_mut().fail = Some(("chain/send-failed".into(), format!("chain {j}: {e:?}")));
                        return;
                    }
                }
                for _ in 0..op.recvs_after {
                    prog2.borrow_mut().at = format!("ordinary receive after chain {j}");
                    let r = conn.receive_reply::<RepIn<'_>, ErrIn<'_>>().await;
                    world2.borrow_mut().ev("serial.recv", j as u64, 0);
                    prog2.borrow_mut().got.push(render_item(&r));
                }
            }
            // whatever the streams left behind
            while prog2.borrow().got.len() < n_frames {
                let i = prog2.borrow().got.len();
                prog2.borrow_mut().at = format!("final ordinary receive for frame {i}");
                let r = conn.receive_reply::<RepIn<'_>, ErrIn<'_>>().await;
                let s = render_item(&r);
                let stop = s.starts_with("TransportErr");
                prog2.borrow_mut().got.push(s);
                if stop {
                    break;
                }
            }
            prog2.borrow_mut().finished = true;
        });
        ex.run(world);
    }
    if let Some(f) = world.borrow_mut().fail.take() {
        return Err(f);
    }
    let p = prog.borrow();
    if let Some(f) = &p.fail {
        return Err(f.clone());
    }
    for (i, g) in p.got.iter().enumerate() {
        match want.get(i) {
            Some(w_) if w_ == g => {}
            Some(w_) => return Err((format!("{id}/wrong-item"), format!("long-lived connection ({} chains): frame {i} of {} came out as {}, the server sent {}", ops.len(), want.len(), clip(g), clip(w_)))),
            None => return Err((format!("{id}/consumed-foreign-frame"), format!("long-lived connection: {} results for {} frames", p.got.len(), want.len()))),
        }
    }
    if !p.finished || p.got.len() < want.len() {
        return Err((
            format!("{id}/stuck-although-every-owed-reply-was-delivered"),
            format!("long-lived connection ({} chains): everything the server owed had been sent, {} of {} frames were handed out, and the client is stuck in {}", ops.len(), p.got.len(), want.len(), p.at),
        ));
    }
    // every call reached the wire
    let w = world.borrow();
    let n_calls: usize = ops.iter().map(|o| o.kinds.len()).sum();
    if w.pipes[wr].log_nuls != n_calls || w.pipes[wr].write_lens.len() != ops.len() {
        return Err((format!("{id}/not-one-write"), format!("long-lived connection: {} chains with {} calls reached the transport as {} writes with {} frames", ops.len(), n_calls, w.pipes[wr].write_lens.len(), w.pipes[wr].log_nuls)));
    }
    Ok(w.scenario.clone())
}

/// What the harness remembers about a held item (C11).
struct Held<'c> {
    item: zlink_core::Result<zlink_core::reply::Result<RepIn<'c>, ErrIn<'c>>>,
    rendered_at_yield: String,
    /// Index into the world's watch list if the item borrows from the buffer.
    watch: Option<usize>,
}

impl Prop for Inst {
    fn id(&self) -> &'static str {
        if self.borrowed {
            "C11"
        } else {
            "C06"
        }
    }

    fn run(&self, world: &World, want_sample: bool) -> Verdict {
        let id = self.id();
        let borrowed = self.borrowed;
        let (sc, mode) = {
            let mut w = world.borrow_mut();
            let first = w.tape.draw(8) as u32;
            if first == SERIAL_MODE && !borrowed && w.tape.draw(4) == 3 {
                drop(w);
                return run_serial(world, id, want_sample);
            }
            if first == SYS_MODE {
                // systematic: chain shape enumerated by the tape prefix, three delivery styles
                let n = 1 + w.tape.draw(4);
                let mut calls = Vec::new();
                let mut owed = Vec::new();
                for i in 0..n {
                    let k = [CallKind::Plain, CallKind::Oneway, CallKind::More][w.tape.draw(3)];
                    calls.push(k);
                    let reply_style = w.tape.draw(4);
                    let mk = |cont: Option<bool>, j: usize| Owed { service_error: false, error: false, unit_error: false, num: i as i64, text: format!("r{i}_{j}"), continues: cont, wire: 0 };
                    match k {
                        CallKind::Oneway => {}
                        CallKind::Plain => {
                            if reply_style == 3 {
                                owed.push(Owed { service_error: false, error: true, unit_error: false, num: i as i64, text: format!("e{i}"), continues: None, wire: 0 })
                            } else {
                                owed.push(mk(if reply_style == 1 { Some(false) } else { None }, 0))
                            }
                        }
                        CallKind::More => {
                            let k = reply_style % 3;
                            for j in 0..k {
                                owed.push(mk(Some(true), j));
                            }
                            if reply_style == 3 {
                                owed.push(Owed { service_error: false, error: true, unit_error: true, num: 0, text: String::new(), continues: None, wire: 0 })
                            } else {
                                owed.push(mk(Some(false), 9))
                            }
                        }
                    }
                }
                let delivery = w.tape.draw(3);
                w.cfg = Cfg::plain();
                w.cfg.bias = 3;
                w.cfg.chunk = [Chunk::Whole, Chunk::Frame, Chunk::Byte][delivery].clone();
                let foreign = if borrowed { vec![] } else { vec![Owed { service_error: false, error: false, unit_error: false, num: 900, text: "later".into(), continues: None, wire: 0 }] };
                {
                    let upgrades = vec![false; calls.len()];
                    (Scenario { calls, upgrades, owed, foreign, via_proxy: false, pre_refused: vec![], abandon_after: None }, format!("systematic delivery={delivery}"))
                }
            } else {
                w.cfg = Cfg::swarm(&mut w.tape);
                let sc = gen_scenario(&mut w.tape, borrowed);
                let m = format!("seeded cfg={:?}", w.cfg);
                (sc, m)
            }
        };
        let n_calls = sc.calls.len();
        let (rd, wr) = {
            let mut w = world.borrow_mut();
            let rd = w.new_pipe();
            let wr = w.sink_pipe();
            w.watch_class = "C11/changed-without-transport-read";
            w.watch_moved_class = "C11/reallocated-by-later-transport-read";
            w.watch_moved_without_read_class = "C11/reallocated-without-transport-read";
            // the server answers only after it has seen all calls of the chain
            let mut bytes = Vec::new();
            for o in sc.owed.iter().chain(sc.foreign.iter()) {
                bytes.extend_from_slice(&o.frame());
                bytes.push(0);
            }
            let n_prelude = sc.pre_refused.iter().filter(|k| **k == 3).count();
            for j in 0..n_prelude {
                // the reply to the call a refused `append` left behind, once that call was flushed
                let mut b = Owed { service_error: false, error: false, unit_error: false, num: 800 + j as i64, text: format!("left{j}"), continues: None, wire: 0 }.frame();
                b.push(0);
                w.push_seg(rd, &b, Some(Gate { pipe: wr, nuls: j + 1, counter: 0 }));
            }
            w.push_seg(rd, &bytes, Some(Gate { pipe: wr, nuls: n_calls + n_prelude, counter: 0 }));
            w.step_cap = 50 * (bytes.len() as u64 + 300);
            (rd, wr)
        };
        if want_sample || world.borrow().want_sample {
            world.borrow_mut().scenario = Some(json!({
                "mode": mode,
                "driver": if sc.via_proxy { "proxy #[zlink(more)] method" } else { "chain_call/append/send" },
                "calls": sc.calls.iter().map(|c| format!("{c:?}")).collect::<Vec<_>>(),
                "owed_replies": sc.owed.iter().map(|o| { let r = o.render(); if r.len() > 60 { format!("{}…({} bytes)", &r[..50], o.frame().len()) } else { r } }).collect::<Vec<_>>(),
                "foreign_frames_after": sc.foreign.len(),
                "refused_submissions_before": sc.pre_refused.len(),
            }));
        }

        // Progress of the client task, readable at quiescence.
        #[derive(Default)]
        struct Progress {
            sent: bool,
            yielded: Vec<String>,
            stream_ended: bool,
            foreign_got: Vec<String>,
            finished: bool,
            fail: Option<(String, String)>,
            /// replies the abandoned stream left behind, as ordinary receives returned them
            leftover_got: Vec<String>,
        }
        let prog: Rc<RefCell<Progress>> = Rc::new(RefCell::new(Progress::default()));

        {
            let mut conn = Connection::new(W::socket(world, rd, wr));
            world.borrow_mut().pipes[rd].conn_id = Some(conn.id());
            let mut ex = Exec::new();
            let prog2 = prog.clone();
            let sc2 = sc.clone();
            let world2 = world.clone();
            ex.spawn(async move {
                {
                    // Items may be held for as long as the stream's borrow of the connection
                    // lasts; that is what the signature promises to safe code.
                    let mut held: Vec<Held<'_>> = Vec::new();
                    // allocator slot -> (index of the held item, data-read epoch when it was yielded)
                    let alloc_slots: RefCell<Vec<(usize, u64)>> = RefCell::new(Vec::new());
                    crate::alloc_watch::reset();
                    struct Release;
                    impl Drop for Release {
                        fn drop(&mut self) {
                            // held items die with this block: their memory may be freed from here on
                            crate::alloc_watch::release_all();
                        }
                    }
                    let _release = Release;
                    let check_held = |held: &Vec<Held<'_>>, when: &str| -> Option<(String, String)> {
                        // Did the allocator see memory of a held item freed, moved or cut off?
                        if let Some((slot, kind, at_epoch)) = crate::alloc_watch::hit() {
                            let what = ["", "freed", "handed to a growing reallocation (which may move it)", "cut off by a shrinking reallocation"][kind as usize];
                            let (k, held_epoch) = alloc_slots.borrow().get(slot).copied().unwrap_or((usize::MAX, 0));
                            return Some(if at_epoch > held_epoch {
                                // a transport read returned data in between: growth for later data (F4)
                                ("C11/reallocated-by-later-transport-read".into(), format!("{when}: the memory held item {k} points to was {what} after a later transport read returned data, while the item was still held"))
                            } else {
                                ("C11/freed-without-transport-read".into(), format!("{when}: the memory held item {k} points to was {what} although no transport read has returned data since the item was yielded, while the item was still held"))
                            });
                        }
                        let w = world2.borrow();
                        let pipe = &w.pipes[rd];
                        for (k, h) in held.iter().enumerate() {
                            // Only look at memory that is known to be inside the buffer's live
                            // allocation: the item's region was bound to the allocation confirmed
                            // at a transport read, that allocation is still the confirmed one, and
                            // no read has filled its window since (the reader grows its buffer
                            // after such a read, possibly moving it; the next transport read will
                            // tell). Items yielded since the last confirmation are in the current
                            // allocation by construction.
                            if let Some(wi) = h.watch {
                                let wt = &w.watches[wi];
                                let safe = !wt.moved && !pipe.maybe_grown && (wt.base.is_none() || wt.base == pipe.confirmed_base);
                                if !safe {
                                    continue;
                                }
                            }
                            let now = render_item(&h.item);
                            if now != h.rendered_at_yield {
                                let clobbered = h.watch.map(|wi| w.watches[wi].clobbered).unwrap_or(false);
                                let class = if clobbered {
                                    "C11/overwritten-by-later-transport-read"
                                } else {
                                    "C11/changed-without-transport-read"
                                };
                                return Some((class.into(), format!("{when}: held item {k} was {} when yielded and now reads {}", clip(&h.rendered_at_yield), clip(&now))));
                            }
                        }
                        if held.len() >= 1 {
                            drop(w);
                            world2.borrow_mut().stat_add("probe.held_items_reread_and_intact", held.len() as u64);
                        }
                        None
                    };

                    macro_rules! drive {
                        ($stream:expr) => {{
                            {
                            let stream = $stream;
                            pin_mut!(stream);
                            prog2.borrow_mut().sent = true;
                            let mut read_in_final_poll = false;
                            loop {
                                if sc2.abandon_after == Some(prog2.borrow().yielded.len()) {
                                    // the caller loses interest: the stream is dropped between two items
                                    world2.borrow_mut().stat("api.reply_stream_dropped_before_its_end");
                                    break;
                                }
                                let reads_before = world2.borrow().pipes[rd].data_reads;
                                let item = stream.next().await;
                                match item {
                                    None => {
                                        prog2.borrow_mut().stream_ended = true;
                                        // Reporting the end of the stream obtains no reply; if that
                                        // poll nevertheless took data from the transport, whatever
                                        // it disturbed is not the documented weakness of handing
                                        // out items that borrow from one buffer (known finding).
                                        if world2.borrow().pipes[rd].data_reads > reads_before {
                                            read_in_final_poll = true;
                                            world2.borrow_mut().stat("probe.transport_read_in_the_poll_that_ended_the_stream");
                                        }
                                        break;
                                    }
                                    Some(it) => {
                                        let r = render_item(&it);
                                        world2.borrow_mut().ev("chain.item", prog2.borrow().yielded.len() as u64, 0);
                                        prog2.borrow_mut().yielded.push(r.clone());
                                        if borrowed {
                                            if let Some(f) = check_held(&held, "after obtaining a further item") {
                                                prog2.borrow_mut().fail = Some(f);
                                                return;
                                            }
                                            {
                                                let text: Option<&str> = match &it {
                                                    Ok(Ok(rep)) => rep.parameters().and_then(|p| match &p.tag {
                                                        std::borrow::Cow::Borrowed(b) => Some(*b),
                                                        // an owned copy cannot be disturbed by the buffer
                                                        std::borrow::Cow::Owned(_) => None,
                                                    }),
                                                    Ok(Err(ErrIn::Bad { why, .. })) => Some(*why),
                                                    _ => None,
                                                };
                                                let mut watch = None;
                                                if let Some(t) = text {
                                                    if !t.is_empty() {
                                                        let mut w = world2.borrow_mut();
                                                        w.watches.push(crate::world::Watch::new(rd, t, held.len()));
                                                        watch = Some(w.watches.len() - 1);
                                                        if crate::alloc_watch::hold(t.as_ptr() as usize, t.len()).is_some() {
                                                            alloc_slots.borrow_mut().push((held.len(), crate::alloc_watch::epoch()));
                                                        }
                                                    }
                                                }
                                                held.push(Held { item: it, rendered_at_yield: r, watch });
                                            }
                                        }
                                        if prog2.borrow().yielded.len() > sc2.owed.len() + 3 {
                                            break; // runaway guard; the oracle reports the surplus
                                        }
                                    }
                                }
                            }
                            if borrowed {
                                if let Some(mut f) = check_held(&held, "after the stream ended") {
                                    if read_in_final_poll && f.0.ends_with("-by-later-transport-read") {
                                        f.0 = "C11/disturbed-by-a-transport-read-after-the-last-item".into();
                                        f.1 = format!("{} (the transport read that did it was issued by the poll that returned None, i.e. while no further reply was being obtained)", f.1);
                                    }
                                    prog2.borrow_mut().fail = Some(f);
                                    return;
                                }
                            }
                            }
                            // the stream object is gone; its items live as long as the borrow of
                            // the connection does (that is their lifetime in the signature)
                            if borrowed {
                                if let Some(f) = check_held(&held, "after the reply stream was dropped") {
                                    prog2.borrow_mut().fail = Some(f);
                                    return;
                                }
                            }
                        }};
                    }

                    let mut n_left = 0usize;
                    for kind in &sc2.pre_refused {
                        if *kind == 3 {
                            let first = match conn.chain_call::<MethOut, RepIn<'_>, ErrIn<'_>>(&call_for(800 + n_left, CallKind::Plain)) {
                                Ok(c) => c,
                                Err(e) => {
                                    prog2.borrow_mut().fail = Some(("chain/refused".into(), format!("{e:?}")));
                                    return;
                                }
                            };
                            if first.append(&refused_call()).is_ok() {
                                prog2.borrow_mut().fail = Some(("chain/refused-call-accepted".into(), "a call with a tuple map key was accepted as a chain link".into()));
                                return;
                            }
                            world2.borrow_mut().stat("fault.serializer_refused_a_later_link_of_an_earlier_chain");
                            // the first call is still enqueued: send it and take its reply by hand
                            if let Err(e) = conn.flush().await {
                                prog2.borrow_mut().fail = Some(("chain/send-failed".into(), format!("flush of the call left behind by a refused append: {e:?}")));
                                return;
                            }
                            let r = conn.receive_reply::<RepIn<'_>, ErrIn<'_>>().await;
                            let got = render_item(&r);
                            let want = Owed { service_error: false, error: false, unit_error: false, num: 800 + n_left as i64, text: format!("left{n_left}"), continues: None, wire: 0 }.render();
                            if got != want {
                                prog2.borrow_mut().fail = Some((format!("{}/wrong-item", if borrowed { "C11" } else { "C06" }), format!("the reply to the call a refused append left behind: expected {want}, got {got}")));
                                return;
                            }
                            n_left += 1;
                            continue;
                        }
                        let refused = if *kind == 1 {
                            conn.enqueue_call(&refused_call()).is_err()
                        } else {
                            conn.chain_call::<Refused, RepIn<'_>, ErrIn<'_>>(&refused_call()).is_err()
                        };
                        world2.borrow_mut().stat("fault.serializer_refused_call_before_the_chain");
                        if !refused {
                            prog2.borrow_mut().fail = Some(("chain/refused-call-accepted".into(), "a call with a tuple map key was accepted".into()));
                            return;
                        }
                    }
                    if sc2.via_proxy {
                        match conn.watch(7).await {
                            Ok(s) => {
                                // the proxy stream yields Result<Result<RepIn, ErrIn>> (no Reply wrapper)
                                let s = s.map(|r| match r {
                                    Ok(Ok(p)) => Ok(Ok(zlink_core::Reply::new(Some(p)))),
                                    Ok(Err(e)) => Ok(Err(e)),
                                    Err(e) => Err(e),
                                });
                                drive!(s)
                            }
                            Err(e) => {
                                prog2.borrow_mut().fail = Some((format!("{}/send-failed", if borrowed { "C11" } else { "C06" }), format!("{e:?}")));
                                return;
                            }
                        }
                    } else {
                        let mut chain = match conn.chain_call::<MethOut, RepIn<'_>, ErrIn<'_>>(&call_for(0, sc2.calls[0]).set_upgrade(sc2.upgrades[0])) {
                            Ok(c) => c,
                            Err(e) => {
                                prog2.borrow_mut().fail = Some(("chain/enqueue-failed".into(), format!("{e:?}")));
                                return;
                            }
                        };
                        for (i, k) in sc2.calls.iter().enumerate().skip(1) {
                            chain = match chain.append(&call_for(i, *k).set_upgrade(sc2.upgrades[i])) {
                                Ok(c) => c,
                                Err(e) => {
                                    prog2.borrow_mut().fail = Some(("chain/enqueue-failed".into(), format!("{e:?}")));
                                    return;
                                }
                            };
                        }
                        match chain.send().await {
                            Ok(s) => drive!(s),
                            Err(e) => {
                                prog2.borrow_mut().fail = Some(("chain/send-failed".into(), format!("{e:?}")));
                                return;
                            }
                        }
                    }
                }
                // what an abandoned stream left behind comes out of ordinary receives
                if let Some(j) = sc2.abandon_after {
                    for _ in j..sc2.owed.len() {
                        let r = conn.receive_reply::<RepIn<'_>, ErrIn<'_>>().await;
                        let s = render_item(&r);
                        prog2.borrow_mut().leftover_got.push(s);
                    }
                }
                // frames of a later exchange must still be there for an ordinary receive
                for _ in 0..sc2.foreign.len() {
                    let r = conn.receive_reply::<RepIn<'_>, ErrIn<'_>>().await;
                    let s = render_item(&r);
                    prog2.borrow_mut().foreign_got.push(s);
                }
                prog2.borrow_mut().finished = true;
            });
            ex.run(world);
        }

        // ---- oracle at quiescence
        let p = prog.borrow();
        if let Some(f) = world.borrow_mut().fail.take() {
            return Err(f);
        }
        if let Some(f) = &p.fail {
            return Err(f.clone());
        }
        if borrowed {
            // C11 only judges the held data; C06 owns the counting.
            return Ok(world.borrow().scenario.clone());
        }
        let w = world.borrow();
        // (1) one write, calls in chain order with the right flags
        let n_prelude = sc.pre_refused.iter().filter(|k| **k == 3).count();
        let wl = &w.pipes[wr].write_lens;
        if wl.len() != 1 + n_prelude {
            return Err((format!("{id}/not-one-write"), format!("the chain reached the transport in {} writes", wl.len().saturating_sub(n_prelude))));
        }
        let log = &w.pipes[wr].log;
        if log.is_empty() {
            return Err((format!("{id}/wrong-calls-on-wire"), "empty write".into()));
        }
        let mut frames: Vec<&[u8]> = log[..log.len() - 1].split(|b| *b == 0).collect();
        // (the calls left behind by refused appends went out before the chain)
        if frames.len() >= n_prelude {
            frames.drain(..n_prelude);
        }
        if log.last() != Some(&0) || frames.len() != n_calls {
            return Err((format!("{id}/wrong-calls-on-wire"), format!("{} frames for {} calls", frames.len(), n_calls)));
        }
        for (i, f) in frames.iter().enumerate() {
            let got: Value = serde_json::from_slice(f).map_err(|e| (format!("{id}/wrong-calls-on-wire"), format!("call {i}: {e}")))?;
            let mut want = expected_call_json(i, sc.calls[i], sc.via_proxy);
            if sc.upgrades[i] {
                want["upgrade"] = json!(true);
            }
            // flags may be written explicitly as false
            for k in ["oneway", "more", "upgrade"] {
                if got.get(k) == Some(&json!(false)) && want.get(k).is_none() {
                    want[k] = json!(false);
                }
            }
            if got != want {
                return Err((format!("{id}/wrong-calls-on-wire"), format!("call {i}: wire has {got}, chain has {want}")));
            }
        }
        // (2) items = owed replies, in order
        let want_items: Vec<String> = sc
            .owed
            .iter()
            .map(|o| {
                if sc.via_proxy && !o.error && !o.service_error {
                    // the proxy stream drops the Reply wrapper; continues is not visible
                    format!("Ok({} {:?} continues=None)", o.num, o.text)
                } else {
                    o.render()
                }
            })
            .collect();
        for (i, y) in p.yielded.iter().enumerate() {
            match want_items.get(i) {
                Some(wi) if wi == y => {}
                Some(wi) => return Err((format!("{id}/wrong-item"), format!("item {i}: expected {wi}, stream yielded {y}"))),
                None => return Err((format!("{id}/consumed-foreign-frame"), format!("stream yielded {} items but only {} replies are owed; extra item {y}", p.yielded.len(), want_items.len()))),
            }
        }
        if let Some(j) = sc.abandon_after {
            if p.yielded.len() != j {
                return Err((format!("{id}/missing-item"), format!("the stream was to be dropped after {j} items but yielded {}", p.yielded.len())));
            }
            if p.leftover_got != want_items[j..] {
                return Err((format!("{id}/replies-of-abandoned-stream-lost"), format!("the stream was dropped after {j} of {} owed replies; ordinary receives then returned {:?}, expected {:?}", want_items.len(), p.leftover_got.iter().map(|s| clip(s)).collect::<Vec<_>>(), want_items[j..].iter().map(|s| clip(s)).collect::<Vec<_>>())));
            }
        } else if !p.stream_ended {
            if p.yielded.len() == want_items.len() {
                // (5) blocked on nothing
                return Err((
                    format!("{id}/blocked-on-unowed-reply"),
                    format!("all {} owed replies were yielded (chain {:?}) but the stream is still waiting for the transport at quiescence", want_items.len(), sc.calls),
                ));
            }
            return Err((format!("{id}/missing-item"), format!("only {} of {} owed replies were yielded and the stream is stuck", p.yielded.len(), want_items.len())));
        }
        if sc.abandon_after.is_none() && p.yielded.len() < want_items.len() {
            return Err((format!("{id}/ended-early"), format!("stream ended after {} of {} owed replies", p.yielded.len(), want_items.len())));
        }
        // (4) foreign frames intact
        let want_foreign: Vec<String> = sc.foreign.iter().map(|o| o.render()).collect();
        if !p.finished || p.foreign_got != want_foreign {
            return Err((format!("{id}/foreign-frames-disturbed"), format!("frames of the later exchange: expected {want_foreign:?}, got {:?} (finished={})", p.foreign_got, p.finished)));
        }
        Ok(w.scenario.clone())
    }

    fn systematic(&self, tier: Tier) -> Vec<Vec<u32>> {
        // all chains of 1..=3 (quick) / 1..=4 (thorough) calls x 4 reply styles per call x 3 deliveries
        let max_n = if tier == Tier::Quick { 3 } else { 4 };
        let mut tapes = Vec::new();
        for n in 1..=max_n {
            let combos = 12usize.pow(n as u32);
            for c in 0..combos {
                for d in 0..3u32 {
                    let mut v = vec![SYS_MODE, (n - 1) as u32];
                    let mut x = c;
                    for _ in 0..n {
                        let k = x % 12;
                        x /= 12;
                        v.push((k / 4) as u32);
                        v.push((k % 4) as u32);
                    }
                    v.push(d);
                    tapes.push(v);
                }
            }
        }
        tapes
    }

    fn random_runs(&self, tier: Tier) -> u64 {
        match tier {
            Tier::Quick => 120_000,
            Tier::Thorough => 2_000_000,
        }
    }

    fn rule(&self) -> String {
        if self.borrowed {
            "Each execution = one chain (or proxy streaming call) whose reply and error types borrow &str from the connection's receive buffer, a scripted conforming server, reply sizes that stay inside the initial 256 bytes / force one growth step / several, and one delivery schedule (one read for all, one read per reply, random pieces, short reads). The harness keeps every yielded item, and after each further item and at the end re-reads all held strings. The read seam reports the end address of the buffer it is handed: if it changed since an item was yielded the item is reported without being dereferenced. Non-trivial = a partial delivery / short read happened; distinct = distinct event-sequence hash.".into()
        } else {
            "Each execution = one chain of 1..6 calls (one in sixteen: 20..150 calls; one in sixteen: `more` calls with up to 199 continuing replies; half of these long scenarios with ~1 kB replies, i.e. reply bursts of 100..250 kB) over {plain, oneway, more} (or one proxy #[zlink(more)] call), a scripted conforming server (success, declared error, unit error, k<=3 continuing replies then final reply or error), 0..2 frames of a later exchange behind the owed replies, and one delivery schedule. Systematic part: every chain of up to 3 (quick) / 4 (thorough) calls x 4 reply styles per call x {one read, frame by frame, byte by byte}. Oracle: one write with the calls in order and right flags; items = owed replies in order; stream ends without needing another transport read (quiescence with the stream still pending = blocked on an unowed reply); later frames intact for an ordinary receive. Non-trivial = a partial delivery, short read, stall or spurious poll happened.".into()
        }
    }

    fn components(&self) -> Value {
        json!({
            "real": ["Connection::chain_call", "Chain::{append, send}", "chain::ReplyStream", "proxy macro output for a #[zlink(more)] method", "ReadConnection::receive_reply", "WriteConnection::{enqueue_call, flush}", "ReplyError derive (borrowed fields)"],
            "stub": ["SimSocket (ours)", "scripted server", "executor"],
        })
    }

    fn assumptions(&self) -> Vec<String> {
        if self.borrowed {
            vec![
                "a buffer reallocation is observed at the read seam (end address of the slice handed to read); a reallocation that happens without any transport read would be dereferenced by the check".into(),
                "re-reading an overwritten-but-still-allocated buffer through a held &str is how the defect is observed; this is the behaviour safe user code would exhibit".into(),
            ]
        } else {
            vec!["the scripted server is conforming: it answers only after the whole chain was written, one final reply or error per non-oneway call".into()]
        }
    }
}
