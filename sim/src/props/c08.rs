//! Server-level properties on the shared server world:
//! C08 each call answered once, in order, on its own connection; oneway gets none
//! C09 a faulty client ends only its own connection
//! C10 streaming replies in order; the connection resumes afterwards
//! C18 round-robin fairness

use crate::{
    real_client::{gen_conforming_stream, Exch, RealResult},
    runner::{Prop, Tier, Verdict},
    server_world::*,
    tape::{hash_str, mix, Tape},
    world::{Cfg, Chunk, Gate, World, W},
};
use serde_json::{json, Value};
use zlink_core::connection::verif_hooks;

#[derive(Clone, Copy, PartialEq, Debug)]
pub enum Kind {
    C08,
    C09,
    C10,
    C18,
}

pub struct ServerProp {
    pub kind: Kind,
}

const SYS_MODE: u32 = 7;
const LONG_MODE: u32 = 6;
/// C10 only: subscribers and setters of a real `notified::State` (see `c10n.rs`).
const NOTIFIED_MODE: u32 = 5;
const PRODUCTION: usize = 100 * 1024 * 1024;
const C09_LIMIT: usize = 4096;

struct Scenario {
    clients: Vec<ClientSpec>,
    /// per client: gate its first segment on another client's output (C18 arrival moments)
    late: Vec<Option<(usize, usize)>>,
    singles: Vec<usize>,
    suspends: bool,
    mode: String,
    /// per client: `Some(program)` = a real zlink client instead of a byte-level script
    real: Vec<Option<Vec<Exch>>>,
    /// C18: every transport read yields once before it returns data and never returns more than
    /// one frame, for every connection alike (see `rule`).
    yield_first: bool,
    /// (streaming client, index of its streaming call, first gated item, other client, number of
    /// that client's reply frames): the stream's later items only appear once the other client
    /// has been sent that many frames.
    stream_gate: Option<(usize, usize, usize, usize, usize)>,
    /// C10: (streaming client, index of its streaming call, waiting client, k): the stream never
    /// returns `Pending` until it is exhausted; the waiting client's one call arrives, in one
    /// piece, once the streaming client has been sent k frames. While that call waits the server
    /// may forward at most a couple of further items.
    stream_flood: Option<(usize, usize, usize, usize)>,
}

/// Payload size for a big `Len` call: around 2^16, around 2^17, tens of kB, and (scripted clients
/// only — a real client's writer re-serialises per 256-byte growth step) a little over 1 MiB.
fn big_pad(t: &mut Tape, allow_mib: bool) -> usize {
    match t.draw(if allow_mib { 5 } else { 3 }) {
        0 => 65_536 - 300 + t.draw(600),
        1 => 20_000 + t.draw(60_000),
        2 => 131_072 - 300 + t.draw(600),
        3 => 1_048_576 - 40_000 + t.draw(300_000),
        _ => 262_144 - 300 + t.draw(600),
    }
}

/// Scale mode "big": give some clients one or two calls with a large payload.
fn add_big_calls(t: &mut Tape, calls: &mut Vec<CallSpec>, allow_mib: bool) {
    if t.draw(2) == 0 {
        return;
    }
    for _ in 0..1 + t.draw(2) {
        let at = t.draw(calls.len() + 1);
        let c = CallSpec::Len { pad: big_pad(t, allow_mib), oneway: t.draw(5) == 4 };
        calls.insert(at, c);
    }
}

/// Program for a real client: partitions its calls into low-level / proxy / chain exchanges.
fn gen_program(t: &mut Tape, ncalls: usize) -> Vec<Exch> {
    let style = t.draw(4); // 0 mixed, 1 low-level only, 2 proxy only, 3 chains only
    let mut prog = Vec::new();
    let mut i = 0;
    while i < ncalls {
        let k = if style == 0 { 1 + t.draw(3) } else { style };
        match k {
            1 => {
                prog.push(Exch::Low);
                i += 1;
            }
            2 => {
                prog.push(Exch::Proxy);
                i += 1;
            }
            _ => {
                let n = (1 + t.draw(4)).min(ncalls - i);
                prog.push(Exch::Chain(n));
                i += n;
            }
        }
    }
    prog
}

fn fault_kinds() -> usize {
    10
}

fn make_fault(kind: usize, at: usize, t: &mut Tape) -> Fault {
    match kind {
        0 => Fault::Garbage { at },
        1 => Fault::TruncatedThenEof { at, keep: 1 + t.draw(60) },
        2 => Fault::EofMidBurst { at },
        3 => Fault::ReadError { at },
        4 => Fault::WriteError { kth: at },
        5 => Fault::UnknownMethod { at },
        6 => Fault::WrongTypes { at },
        7 => Fault::WrongShape { at },
        8 => Fault::Oversize { at, len: C09_LIMIT + 300 },
        _ => Fault::WriteGlitch { kth: at },
    }
}

/// One server instance that lives through thousands of short-lived connections, one after the
/// other (each connects once everything before it has settled): counters, slot tables, id
/// allocation and per-connection bookkeeping that only go wrong at the N-th connection.
fn long_lived_scenario(kind: Kind, w: &mut W) -> Scenario {
    w.cfg = Cfg::plain();
    w.cfg.chunk = Chunk::Frame;
    let t = &mut w.tape;
    let n = [40usize, 300, 1_100, 2_100, 4_200, 5_000, 9_000, 17_000, 33_000, 66_000][t.draw(10)];
    let flavour = t.draw(4); // 0: all of one kind (kind-specific), 1..3: mixed by tape
    let e = |oneway: bool| CallSpec::Echo { pad: 2, oneway };
    let mut clients = Vec::new();
    // a resident healthy client that talks before and after the crowd
    clients.push(ClientSpec { cid: 10, calls: vec![e(false), e(false)], faults: vec![], pingpong: true, closes: false, after_quiet: false });
    for i in 0..n {
        let cid = 1_000 + i as u32;
        let pick = if flavour == 0 { 0 } else { t.draw(4) };
        let spec = match (kind, pick) {
            (Kind::C09, 0) => ClientSpec { cid, calls: vec![CallSpec::Stream { flags: vec![0, 0], ends: true }], faults: vec![Fault::WriteError { kth: 0 }], pingpong: false, closes: false, after_quiet: true },
            (Kind::C09, 1) => ClientSpec { cid, calls: vec![e(false)], faults: vec![Fault::Garbage { at: 0 }], pingpong: false, closes: true, after_quiet: true },
            (Kind::C09, 2) => ClientSpec { cid, calls: vec![e(false), e(false)], faults: vec![Fault::TruncatedThenEof { at: 1, keep: 7 }], pingpong: false, closes: true, after_quiet: true },
            (Kind::C10, 0) | (Kind::C10, 1) => ClientSpec { cid, calls: vec![CallSpec::Stream { flags: vec![0, 1], ends: true }, e(false)], faults: vec![], pingpong: false, closes: true, after_quiet: true },
            (Kind::C10, 2) => ClientSpec { cid, calls: vec![CallSpec::Stream { flags: vec![0, 0], ends: true }], faults: vec![Fault::WriteError { kth: 1 }], pingpong: false, closes: false, after_quiet: true },
            (_, 3) => ClientSpec { cid, calls: vec![e(true), e(false)], faults: vec![], pingpong: false, closes: true, after_quiet: true },
            _ => ClientSpec { cid, calls: vec![e(false)], faults: vec![], pingpong: false, closes: true, after_quiet: true },
        };
        clients.push(spec);
    }
    // and a newcomer after the crowd
    clients.push(ClientSpec { cid: 99, calls: vec![e(false), CallSpec::Fail { oneway: false }, e(false), e(false)], faults: vec![], pingpong: false, closes: false, after_quiet: true });
    let late = vec![None; clients.len()];
    let real = vec![None; clients.len()];
    Scenario { stream_flood: None, stream_gate: None, yield_first: false, clients, late, singles: vec![], suspends: false, mode: format!("long-lived server: {n} short-lived connections one after the other, flavour {flavour}"), real }
}

fn gen_scenario(kind: Kind, w: &mut W) -> Scenario {
    let first = w.tape.draw(8) as u32;
    if first == SYS_MODE {
        return sys_scenario(kind, w);
    }
    if first == NOTIFIED_MODE && kind == Kind::C18 && w.tape.draw(4) == 0 {
        // the rest of the tape is read by `c18b::run`
        return Scenario { stream_flood: None, stream_gate: None, yield_first: false, clients: vec![], late: vec![], singles: vec![], suspends: false, mode: "REAL-SMOL".into(), real: vec![] };
    }
    if first == NOTIFIED_MODE && kind == Kind::C08 && w.tape.draw(2) == 0 {
        // the rest of the tape is read by `c08o::run`
        return Scenario { stream_flood: None, stream_gate: None, yield_first: false, clients: vec![], late: vec![], singles: vec![], suspends: false, mode: "OPAQUE".into(), real: vec![] };
    }
    if first == NOTIFIED_MODE && kind == Kind::C10 {
        // the rest of the tape is read by `c10n::run`
        return Scenario { stream_flood: None, stream_gate: None, yield_first: false, clients: vec![], late: vec![], singles: vec![], suspends: false, mode: "NOTIFIED".into(), real: vec![] };
    }
    if first == LONG_MODE && kind != Kind::C18 && w.tape.draw(64) == 63 && w.tape.draw(8) == 0 {
        w.stat("long_lived_server_runs");
        return long_lived_scenario(kind, w);
    }
    w.cfg = Cfg::swarm(&mut w.tape);
    w.stream_size_hint = w.tape.draw(3) as u8;
    let mut yield_first = false;
    if kind == Kind::C18 {
        // a transport that withholds readable bytes makes a call *not* waiting from the server's
        // point of view; flagging that would be a false alarm
        w.cfg.read_pending_despite_data = false;
        // The cooperative-yield transport is used in one uniform shape only: *every* read of
        // *every* connection yields once and then returns at most one frame. Then no connection
        // ever has a second call buffered inside the server, every call needs exactly two polls,
        // and "has a complete call waiting" still means the same to the monitor and the server.
        // (Mixed with buffered flooders the yielding caller would lose every race, which the
        // statement does not clearly forbid.)
        yield_first = w.tape.draw(4) == 3;
        w.cfg.read_yields_first = yield_first;
        if yield_first {
            // a short read would make one call cost several yielding reads
            w.cfg.short_read = false;
        }
    }
    let t = &mut w.tape;
    let suspends = t.draw(3) == 2;
    let mut clients = Vec::new();
    let mut late = Vec::new();
    let mut singles = Vec::new();
    let mut real: Vec<Option<Vec<Exch>>> = Vec::new();
    // scale swarm: most worlds are small; one in sixteen has dozens of connections, one in
    // sixteen has one connection with a long call history, one in sixteen (C10) long streams
    let scale = t.draw(16);
    let mut wide_streams = false;
    match kind {
        Kind::C10 if scale == 11 && t.draw(16) == 15 => {
            // *Width*: several hundred connections parked in open reply streams at the same time
            // (beyond any 8-bit counter or fixed-size window over the list of streams). Every
            // subscriber is owed its items wherever it sits in that list; a few plain callers talk
            // meanwhile.
            let n_sub = 257 + t.draw(160);
            wide_streams = true;
            for c in 0..n_sub {
                let items = 1 + t.draw(3);
                // (most of them never end, so that they really are all open at the same time)
                let mut calls = vec![CallSpec::Stream { flags: vec![0; items], ends: t.draw(8) == 0 }];
                if t.draw(4) == 0 {
                    calls.push(CallSpec::Echo { pad: 2, oneway: false });
                }
                clients.push(ClientSpec { cid: 1_000 + c as u32, calls, faults: vec![], pingpong: false, closes: false, after_quiet: false });
                late.push(None);
                real.push(None);
            }
            for c in 0..1 + t.draw(3) {
                let calls: Vec<CallSpec> = (0..1 + t.draw(4)).map(|_| gen_call(t, false, true)).collect();
                clients.push(ClientSpec { cid: 10 + c as u32, calls, faults: vec![], pingpong: t.draw(2) == 1, closes: false, after_quiet: false });
                late.push(None);
                real.push(None);
            }
        }
        Kind::C08 | Kind::C10 => {
            let n = if scale == 15 { 8 + t.draw(33) } else { 1 + t.draw(if kind == Kind::C08 { 4 } else { 3 }) };
            let long_client = if scale == 14 { Some(t.draw(n)) } else { None };
            // 0: scripted clients only, 1: every client is a real zlink client, 2..3: mixed
            let real_mode = t.draw(4);
            for c in 0..n {
                let ncalls = if long_client == Some(c) { 30 + t.draw(170) } else if scale == 15 { t.draw(4) } else { t.draw(6) };
                let is_real = real_mode == 1 || (real_mode >= 2 && t.draw(2) == 1);
                if is_real {
                    let mut calls: Vec<CallSpec> = (0..ncalls)
                        .map(|_| if kind == Kind::C10 && t.draw(3) == 2 { gen_conforming_stream(t, if scale == 13 { 150 } else { 4 }) } else { gen_call(t, false, true) })
                        .collect();
                    if scale == 12 {
                        add_big_calls(t, &mut calls, false);
                    }
                    real.push(Some(gen_program(t, calls.len())));
                    clients.push(ClientSpec { cid: 10 + c as u32, calls, faults: vec![], pingpong: false, closes: t.draw(2) == 1, after_quiet: false });
                    late.push(None);
                    continue;
                }
                // (C08 worlds: one scripted client in three also makes streaming and deferred calls;
                // "each call handled once, answered in order" covers those as well)
                let streams_too = kind == Kind::C10 || t.draw(3) == 2;
                let mut calls: Vec<CallSpec> = (0..ncalls).map(|_| gen_call(t, streams_too, true)).collect();
                if kind == Kind::C10 && scale == 13 {
                    for cs in calls.iter_mut() {
                        if let CallSpec::Stream { flags, .. } = cs {
                            let extra = t.draw(150);
                            flags.extend((0..extra).map(|_| 0u8));
                        }
                    }
                }
                if scale == 12 {
                    add_big_calls(t, &mut calls, true);
                }
                let mut faults = Vec::new();
                if kind == Kind::C10 && t.draw(5) == 4 {
                    let kth = t.draw(6);
                    // (a failure that would not repeat if the write were tried again, one time in three)
                    faults.push(if t.draw(3) == 2 { Fault::WriteGlitch { kth } } else { Fault::WriteError { kth } });
                }
                // C08: one scripted client in five ends its script with a message the service
                // cannot decode; every call in front of it is still owed its answer
                if kind == Kind::C08 && !calls.is_empty() && t.draw(5) == 4 {
                    let at = t.draw(calls.len());
                    faults.push(make_fault([0, 5, 6, 7][t.draw(4)], at, t));
                }
                clients.push(ClientSpec { cid: 10 + c as u32, calls, faults, pingpong: t.draw(3) == 2, closes: t.draw(2) == 1, after_quiet: false });
                late.push(None);
                real.push(None);
            }
        }
        Kind::C09 if scale == 13 => {
            // *History* flavour: subscribers (healthy ones and ones whose transport rejects writes)
            // park their connections in streaming mode; then one client pipelines 64..260 calls in
            // one burst, so that the server handles a long run of calls back to back while streams
            // are waiting and their items become ready at moments the tape chooses.
            let n_sub = 1 + t.draw(3);
            let n_bad = 1 + t.draw(2);
            let mut cid = 10u32;
            for _ in 0..t.draw(3) {
                // idle callers in front (they shift everybody's position in the connection list)
                clients.push(ClientSpec { cid, calls: vec![CallSpec::Echo { pad: 1, oneway: false }], faults: vec![], pingpong: false, closes: false, after_quiet: false });
                late.push(None);
                cid += 1;
            }
            let mut subs: Vec<(bool, ClientSpec)> = Vec::new();
            for _ in 0..n_sub {
                let items = 1 + t.draw(6);
                subs.push((false, ClientSpec { cid: 0, calls: vec![CallSpec::Stream { flags: vec![0; items], ends: t.draw(3) == 0 }], faults: vec![], pingpong: false, closes: false, after_quiet: false }));
            }
            for _ in 0..n_bad {
                let items = 1 + t.draw(6);
                subs.push((true, ClientSpec { cid: 0, calls: vec![CallSpec::Stream { flags: vec![0; items], ends: false }], faults: vec![if t.draw(4) == 3 { Fault::WriteGlitch { kth: t.draw(3) } } else { Fault::WriteError { kth: t.draw(3) } }], pingpong: false, closes: false, after_quiet: false }));
            }
            // subscribers arrive in a tape-chosen order
            while !subs.is_empty() {
                let (bad, mut c) = subs.remove(t.draw(subs.len()));
                c.cid = if bad { 50 + cid } else { cid };
                cid += 1;
                clients.push(c);
                late.push(None);
            }
            let burst = 64 + t.draw(200);
            let calls: Vec<CallSpec> = (0..burst).map(|_| if t.draw(8) == 7 { CallSpec::Echo { pad: t.draw(6), oneway: true } } else { CallSpec::Echo { pad: t.draw(6), oneway: false } }).collect();
            clients.push(ClientSpec { cid, calls, faults: vec![], pingpong: false, closes: t.draw(2) == 1, after_quiet: false });
            late.push(None);
            clients.push(ClientSpec { cid: 99, calls: vec![CallSpec::Echo { pad: 3, oneway: false }], faults: vec![], pingpong: false, closes: false, after_quiet: true });
            late.push(None);
        }
        Kind::C09 => {
            let healthy = if scale == 15 { 4 + t.draw(26) } else { 1 + t.draw(3) };
            let faulty = if scale == 15 { 1 + t.draw(8) } else { 1 + t.draw(2) };
            for c in 0..healthy {
                let ncalls = if scale == 14 && c == 0 { 30 + t.draw(120) } else { 1 + t.draw(5) };
                let mut calls: Vec<CallSpec> = (0..ncalls).map(|_| gen_call(t, true, true)).collect();
                if scale == 12 {
                    add_big_calls(t, &mut calls, true);
                }
                clients.push(ClientSpec { cid: 10 + c as u32, calls, faults: vec![], pingpong: t.draw(3) == 2, closes: t.draw(2) == 1, after_quiet: false });
                late.push(None);
            }
            for c in 0..faulty {
                let ncalls = 1 + t.draw(4);
                let calls: Vec<CallSpec> = (0..ncalls).map(|_| gen_call(t, true, true)).collect();
                let nf = 1 + t.draw(2);
                let mut faults = Vec::new();
                for _ in 0..nf {
                    let k = t.draw(fault_kinds());
                    let at = t.draw(ncalls);
                    faults.push(make_fault(k, at, t));
                }
                clients.push(ClientSpec { cid: 50 + c as u32, calls, faults, pingpong: t.draw(3) == 2, closes: t.draw(2) == 1, after_quiet: false });
                late.push(None);
            }
            // probe connection opened after the last fault
            clients.push(ClientSpec { cid: 99, calls: vec![CallSpec::Echo { pad: 3, oneway: false }], faults: vec![], pingpong: false, closes: false, after_quiet: true });
            late.push(None);
        }
        Kind::C18 => {
            // one world in five hundred: a flooder with tens of thousands of calls, and a quiet
            // connection whose call arrives only after more than 2^15 (or 2^16) others were served
            let wide = scale == 11 && t.draw(32) == 31;
            // *History* flavour, one world in thirty-two: a crowd of 33..100 short-lived connections
            // is open at the same time early in the server's life and goes away; the flooders then
            // keep the server busy for well over a thousand loop iterations.
            let crowd = if scale == 10 && t.draw(2) == 1 { 33 + t.draw(68) } else { 0 };
            let n = if wide || crowd > 0 { 2 + t.draw(3) } else if scale == 15 { 6 + t.draw(25) } else { 2 + t.draw(4) };
            let n_flood = if crowd > 0 { (2 + t.draw(2)).min(n - 1).max(1) } else { 1 + t.draw(n - 1) };
            for c in 0..n {
                if c < n_flood {
                    let ncalls = if wide { [33_500usize, 66_500][t.draw(2)] + t.draw(300) } else if crowd > 0 { 500 + t.draw(400) } else { 20 + t.draw(41) };
                    // a flooder's calls may be oneway (nothing is written back for them): none / all / mixed
                    let ow = t.draw(4);
                    let calls = (0..ncalls).map(|_| CallSpec::Echo { pad: t.draw(12), oneway: ow == 2 || (ow == 3 && t.draw(2) == 1) }).collect();
                    clients.push(ClientSpec { cid: 10 + c as u32, calls, faults: vec![], pingpong: false, closes: t.draw(3) == 2, after_quiet: false });
                    late.push(None);
                } else {
                    // single caller: one complete call, appearing once flooder f has been served k replies
                    let f = t.draw(n_flood);
                    let k = if wide { [32_700usize, 65_400][t.draw(2)] + t.draw(400) } else if crowd > 0 { 150 + t.draw(340) } else { t.draw(20) };
                    let call = if scale == 13 && !yield_first && t.draw(24) == 23 {
                        // a waiting call of 17..24 MiB (tens of thousands of reads of one connection in a row)
                        CallSpec::Len { pad: (17 << 20) + t.draw(7 << 20), oneway: false }
                    } else if (scale == 12 || scale == 13) && !yield_first {
                        CallSpec::Len { pad: big_pad(t, scale == 13), oneway: false }
                    } else {
                        CallSpec::Echo { pad: t.draw(8), oneway: false }
                    };
                    clients.push(ClientSpec { cid: 10 + c as u32, calls: vec![call], faults: vec![], pingpong: false, closes: false, after_quiet: false });
                    late.push(Some((f, k)));
                    singles.push(c);
                }
            }
            for _ in 0..crowd {
                let c = clients.len();
                clients.push(ClientSpec { cid: 1_000 + c as u32, calls: vec![CallSpec::Echo { pad: 1, oneway: false }; t.draw(2)], faults: vec![], pingpong: false, closes: true, after_quiet: false });
                late.push(None);
            }
            // optional extra clients that change the connection set: a short-lived one and a streaming one
            if t.draw(2) == 1 {
                let c = clients.len();
                clients.push(ClientSpec { cid: 10 + c as u32, calls: vec![CallSpec::Echo { pad: 1, oneway: false }; 1 + t.draw(3)], faults: vec![], pingpong: false, closes: true, after_quiet: false });
                late.push(Some((0, t.draw(10))));
            }
            if t.draw(2) == 1 {
                let c = clients.len();
                let n_items = t.draw(3);
                clients.push(ClientSpec { cid: 10 + c as u32, calls: vec![CallSpec::Stream { flags: vec![0; n_items], ends: true }, CallSpec::Echo { pad: 2, oneway: false }], faults: vec![], pingpong: false, closes: false, after_quiet: false });
                late.push(Some((0, t.draw(10))));
            }
        }
    }
    real.resize(clients.len(), None);
    // C18: in one world of four the listener fails transiently (ECONNABORTED-style: one `accept`
    // reports an error, the listener itself is fine) once the service has handled k calls, at one
    // to three such moments. A server may end there - `Server::run` returns the error - or carry on;
    // the fairness monitor judges whatever service order was recorded.
    if kind == Kind::C18 && t.draw(4) == 3 {
        let mut at: Vec<u64> = (0..1 + t.draw(3)).map(|_| 1 + t.draw(40) as u64).collect();
        at.sort();
        w.listener.accept_fail_at = at;
    }
    // C10: in one world of three, a stream's later items are triggered by another client's calls
    // having been answered (a subscriber of a notified state and the client that sets it)
    let mut stream_gate = None;
    if kind == Kind::C10 && t.draw(3) == 2 {
        // make sure the world has a scripted streaming client and a scripted plain one
        if !clients.iter().enumerate().any(|(i, c)| real[i].is_none() && c.calls.iter().any(|k| matches!(k, CallSpec::Stream { flags, .. } if !flags.is_empty()))) {
            let n_items = 1 + t.draw(4);
            let flags = (0..n_items).map(|_| t.draw(3) as u8).collect();
            let mut calls = vec![CallSpec::Stream { flags, ends: t.draw(4) != 3 }];
            for _ in 0..t.draw(3) {
                calls.push(gen_call(t, false, true));
            }
            clients.push(ClientSpec { cid: 10 + clients.len() as u32, calls, faults: vec![], pingpong: false, closes: t.draw(2) == 1, after_quiet: false });
            late.push(None);
            real.push(None);
        }
        if !clients.iter().enumerate().any(|(i, c)| real[i].is_none() && c.faults.is_empty() && !c.calls.iter().any(|k| matches!(k, CallSpec::Stream { .. } | CallSpec::Deferred { .. })) && c.calls.iter().any(|k| !k.oneway())) || clients.len() < 2 {
            let mut calls = vec![CallSpec::Echo { pad: t.draw(20), oneway: false }];
            for _ in 0..t.draw(3) {
                calls.push(gen_call(t, false, true));
            }
            clients.push(ClientSpec { cid: 10 + clients.len() as u32, calls, faults: vec![], pingpong: t.draw(3) == 2, closes: t.draw(2) == 1, after_quiet: false });
            late.push(None);
            real.push(None);
        }
        let streamers: Vec<(usize, usize)> = clients
            .iter()
            .enumerate()
            .filter(|(i, _)| real[*i].is_none())
            .flat_map(|(i, c)| c.calls.iter().enumerate().filter(|(_, k)| matches!(k, CallSpec::Stream { flags, .. } if !flags.is_empty())).map(move |(j, _)| (i, j)))
            .collect();
        let plain: Vec<usize> = clients
            .iter()
            .enumerate()
            .filter(|(i, c)| real[*i].is_none() && c.faults.is_empty() && !c.calls.iter().any(|k| matches!(k, CallSpec::Stream { .. } | CallSpec::Deferred { .. })) && c.calls.iter().any(|k| !k.oneway()))
            .map(|(i, _)| i)
            .collect();
        if !streamers.is_empty() && !plain.is_empty() {
            let (a, j) = streamers[t.draw(streamers.len())];
            let cands: Vec<usize> = plain.iter().copied().filter(|x| *x != a).collect();
            if !cands.is_empty() {
                let x = cands[t.draw(cands.len())];
                let owed = reference_output(clients[x].cid, &clients[x].calls).0.len();
                let nflags = if let CallSpec::Stream { flags, .. } = &clients[a].calls[j] { flags.len() } else { 0 };
                let from = t.draw(nflags);
                let nuls = if t.draw(2) == 0 { owed } else { 1 + t.draw(owed) };
                stream_gate = Some((a, j, from, x, nuls));
            }
        }
    }
    // C10: in one world of four (without a gated stream), a stream that is never pending and a
    // client whose single call arrives while it is being forwarded
    let mut stream_flood = None;
    if kind == Kind::C10 && stream_gate.is_none() && t.draw(4) == 3 {
        let a = clients.len();
        let long = t.draw(8) == 7;
        let n_items = 8 + t.draw(if long { 400 } else { 70 });
        let mut calls = Vec::new();
        for _ in 0..t.draw(2) {
            calls.push(CallSpec::Echo { pad: t.draw(10), oneway: false });
        }
        let j = calls.len();
        calls.push(CallSpec::Stream { flags: vec![0; n_items], ends: true });
        for _ in 0..t.draw(2) {
            calls.push(CallSpec::Echo { pad: t.draw(10), oneway: false });
        }
        clients.push(ClientSpec { cid: 10 + a as u32, calls, faults: vec![], pingpong: false, closes: false, after_quiet: false });
        late.push(None);
        real.push(None);
        let b = clients.len();
        clients.push(ClientSpec { cid: 10 + b as u32, calls: vec![CallSpec::Echo { pad: t.draw(8), oneway: false }], faults: vec![], pingpong: false, closes: false, after_quiet: false });
        late.push(None);
        real.push(None);
        stream_flood = Some((a, j, b, j + t.draw(n_items.saturating_sub(3).max(1))));
        // a transport that withholds readable bytes makes the waiting call invisible to the server
        // (same reasoning as for C18)
        w.cfg.read_yields_first = false;
        w.cfg.read_pending_despite_data = false;
    }
    // Which instantiation of the Service trait's associated types serves this world. The zero-sized
    // stream type has no identity: worlds that use it keep one streaming call at most.
    let plain_world = kind != Kind::C18 && real.iter().all(|r| r.is_none()) && stream_gate.is_none() && stream_flood.is_none();
    let variant = match t.draw(8) {
        0..=4 => 0u8,
        7 if plain_world => 2,
        _ => 1,
    };
    if variant == 2 {
        let mut seen = false;
        for c in clients.iter_mut() {
            for k in c.calls.iter_mut() {
                if matches!(k, CallSpec::Stream { .. } | CallSpec::Deferred { .. }) {
                    if seen {
                        *k = CallSpec::Echo { pad: 2, oneway: false };
                    }
                    seen = true;
                }
            }
        }
    }
    w.svc_variant = variant;
    if wide_streams {
        w.stat("worlds_with_hundreds_of_open_reply_streams");
    }
    let mode = format!("seeded cfg={:?} service_suspends={suspends} stream_size_hint={} stream_gate={stream_gate:?} stream_flood={stream_flood:?} service_instantiation={variant}", w.cfg, w.stream_size_hint);
    Scenario { stream_flood, stream_gate, yield_first, clients, late, singles, suspends, mode, real }
}

/// Small fixed scenarios whose interleavings are enumerated by the digits that follow on the tape
/// (each digit = which environment event happens next; the server runs to a standstill between
/// two events).
fn sys_scenario(kind: Kind, w: &mut W) -> Scenario {
    w.cfg = Cfg::plain();
    w.cfg.bias = 3;
    w.cfg.chunk = Chunk::Frame;
    let t = &mut w.tape;
    let e = |oneway: bool| CallSpec::Echo { pad: 2, oneway };
    let mut clients = Vec::new();
    let mut singles = Vec::new();
    let mut late = Vec::new();
    let mut yield_first = false;
    let spec = t.draw(16);
    match kind {
        Kind::C08 => {
            let shapes: [(&[CallSpec], &[CallSpec]); 6] = [
                (&[e(false), e(false)], &[e(false), e(false)]),
                (&[e(true), e(false)], &[e(false), e(true)]),
                (&[CallSpec::Fail { oneway: false }, e(false)], &[e(true), e(true)]),
                (&[e(false)], &[CallSpec::Slow { polls: 2, oneway: false }, e(false)]),
                (&[e(true)], &[CallSpec::Fail { oneway: true }, e(false)]),
                (&[e(false), e(true)], &[]),
            ];
            let (a, b) = &shapes[spec % shapes.len()];
            clients.push(ClientSpec { cid: 10, calls: a.to_vec(), faults: vec![], pingpong: false, closes: spec % 2 == 1, after_quiet: false });
            clients.push(ClientSpec { cid: 11, calls: b.to_vec(), faults: vec![], pingpong: false, closes: false, after_quiet: false });
        }
        Kind::C09 => {
            // every fault kind x every position in a 3-call script, next to a healthy 2-call client
            let fk = t.draw(fault_kinds());
            let at = t.draw(3);
            let f = make_fault(fk, at, &mut Tape::replay(vec![20]));
            clients.push(ClientSpec { cid: 10, calls: vec![e(false), e(false)], faults: vec![], pingpong: spec % 2 == 1, closes: false, after_quiet: false });
            clients.push(ClientSpec { cid: 50, calls: vec![e(false), e(false), e(false)], faults: vec![f], pingpong: false, closes: false, after_quiet: false });
            clients.push(ClientSpec { cid: 99, calls: vec![e(false)], faults: vec![], pingpong: false, closes: false, after_quiet: true });
        }
        Kind::C10 => {
            w.stream_size_hint = ((spec / 6) % 2) as u8;
            let shapes: [&[CallSpec]; 6] = [
                &[CallSpec::Stream { flags: vec![0, 0], ends: true }, e(false)],
                &[e(false), CallSpec::Stream { flags: vec![0, 1], ends: true }, e(false), e(false)],
                &[CallSpec::Stream { flags: vec![], ends: true }, e(false)],
                &[CallSpec::Stream { flags: vec![0, 2, 0], ends: false }, e(false)],
                &[CallSpec::Stream { flags: vec![0], ends: true }, CallSpec::Stream { flags: vec![1], ends: true }, e(true), e(false)],
                &[e(true), CallSpec::Stream { flags: vec![0, 0, 0, 1], ends: true }],
            ];
            clients.push(ClientSpec { cid: 10, calls: shapes[spec % shapes.len()].to_vec(), faults: vec![], pingpong: false, closes: false, after_quiet: false });
            clients.push(ClientSpec { cid: 11, calls: vec![e(false), e(false)], faults: vec![], pingpong: spec % 2 == 1, closes: false, after_quiet: false });
        }
        Kind::C18 => {
            yield_first = spec >= 4;
            let nf = 1 + spec % 2;
            for c in 0..nf {
                clients.push(ClientSpec { cid: 10 + c as u32, calls: vec![e(false); 6], faults: vec![], pingpong: false, closes: false, after_quiet: false });
            }
            clients.push(ClientSpec { cid: 20, calls: vec![e(false)], faults: vec![], pingpong: false, closes: false, after_quiet: false });
            singles.push(nf);
            if spec % 4 >= 2 {
                clients.push(ClientSpec { cid: 21, calls: vec![e(false)], faults: vec![], pingpong: false, closes: true, after_quiet: false });
            }
        }
    }
    while late.len() < clients.len() {
        late.push(None);
    }
    let real = vec![None; clients.len()];
    Scenario { stream_flood: None, stream_gate: None, yield_first, clients, late, singles, suspends: false, mode: format!("systematic spec={spec}"), real }
}

impl Prop for ServerProp {
    fn id(&self) -> &'static str {
        match self.kind {
            Kind::C08 => "C08",
            Kind::C09 => "C09",
            Kind::C10 => "C10",
            Kind::C18 => "C18",
        }
    }

    fn level(&self) -> &'static str {
        if self.kind == Kind::C09 {
            "fault_enumeration"
        } else {
            "exploration"
        }
    }

    fn run(&self, world: &World, want_sample: bool) -> Verdict {
        let id = self.id();
        crate::server_world::set_call_spelling(0);
        let mut sc = gen_scenario(self.kind, &mut world.borrow_mut());
        if sc.mode == "NOTIFIED" {
            return crate::props::c10n::run(world);
        }
        if sc.mode == "OPAQUE" {
            return crate::props::c08o::run(world);
        }
        if sc.mode == "REAL-SMOL" {
            return crate::props::c18b::run(world);
        }
        // How the scripted clients spell their calls (member order, blanks, explicit `false` flags,
        // unknown members, padding) is a per-run draw; 0 = serde_json's compact output.
        {
            let mut w = world.borrow_mut();
            let mut mask = match w.tape.draw(3) {
                0 | 1 => 0,
                _ => 1 + w.tape.draw(127) as u32,
            };
            // (a service that first collects the call as a `serde_json::Value` looks inside every
            // member, unknown ones included: for it such a frame is undecodable)
            if w.svc_variant == 1 {
                mask &= !64;
            }
            // In worlds with the uniform cooperative-yield transport every call must cost exactly one
            // yielding read (see `rule`): a call that does not fit the reader's initial 256-byte
            // buffer costs two, loses its turn in between, and the monitor would flag what the
            // design of that world deliberately leaves out. Spellings that bloat a call are off there.
            if sc.yield_first {
                mask &= 1 | 4 | 16 | 32;
            }
            crate::server_world::set_call_spelling(mask);
            if mask != 0 {
                w.stat("worlds_with_calls_spelled_unusually");
            }
            // one world in four: reply streams that never make the server wait (everything,
            // including the end, is there on the first poll)
            if w.tape.draw(4) == 3 {
                w.eager_all = true;
                w.stat("worlds_whose_reply_streams_are_ready_from_the_start");
            }
        }
        let needs_limit = sc.clients.iter().any(|c| c.faults.iter().any(|f| matches!(f, Fault::Oversize { .. })));
        // The lowered limit must stay far above every legitimate burst in this world: the reader
        // accumulates a pipelined burst before handing out frames (known finding F6 of C17), and
        // a healthy client tripping over that would be C17's finding, not a C09 violation.
        let limit = {
            let longest: usize = sc
                .clients
                .iter()
                .map(|c| c.calls.iter().enumerate().map(|(i, k)| call_frame(c.cid, i as u32, k).len() + 1).sum::<usize>())
                .max()
                .unwrap_or(0);
            (C09_LIMIT.max(2 * longest) + 255) / 256 * 256
        };
        for c in sc.clients.iter_mut() {
            for f in c.faults.iter_mut() {
                if let Fault::Oversize { len, .. } = f {
                    *len = limit + 300;
                }
            }
        }
        struct Reset;
        impl Drop for Reset {
            fn drop(&mut self) {
                verif_hooks::set_max_buffer_size(PRODUCTION);
            }
        }
        let _reset = Reset;
        if needs_limit {
            verif_hooks::set_max_buffer_size(limit);
        }
        if want_sample || world.borrow().want_sample {
            world.borrow_mut().scenario = Some(json!({"mode": sc.mode, "clients": sc.clients.iter().zip(sc.real.iter()).map(|(c, r)| {
                let mut d = describe_client(c);
                if let Some(p) = r {
                    d["real_zlink_client_program"] = json!(format!("{p:?}"));
                }
                d
            }).collect::<Vec<_>>() }));
        }
        let infos: Vec<ConnInfo> = sc.clients.iter().zip(sc.real.iter()).map(|(c, r)| if r.is_some() { install_real_client(world, c) } else { install_client(world, c) }).collect();
        let mut real_results: Vec<Option<std::rc::Rc<std::cell::RefCell<RealResult>>>> = vec![None; sc.clients.len()];
        let mut reals = Vec::new();
        for (i, (c, r)) in sc.clients.iter().zip(sc.real.iter()).enumerate() {
            if let Some(prog) = r {
                let result = std::rc::Rc::new(std::cell::RefCell::new(RealResult::default()));
                real_results[i] = Some(result.clone());
                reals.push(RealClient { spec: c.clone(), prog: prog.clone(), c2s: infos[i].c2s, s2c: infos[i].s2c, result });
                world.borrow_mut().stat("real_zlink_clients");
            }
        }
        if let Some((a, j, b, k)) = sc.stream_flood {
            let mut w = world.borrow_mut();
            w.eager_streams.push((sc.clients[a].cid, j as u32));
            let gate = Gate { pipe: infos[a].s2c, nuls: k, counter: 0 };
            if let Some(seg) = w.pipes[infos[b].c2s].segs.front_mut() {
                seg.gate = Some(gate);
            }
            w.pipes[infos[b].c2s].chunk_override = Some(Chunk::Whole);
        }
        if let Some((a, j, from, x, nuls)) = sc.stream_gate {
            let gate = Gate { pipe: infos[x].s2c, nuls, counter: 0 };
            world.borrow_mut().stream_gates.push((sc.clients[a].cid, j as u32, from, gate));
        }
        {
            let mut w = world.borrow_mut();
            // C18: single callers deliver their call in one piece; arrival moments via gates
            for (i, l) in sc.late.iter().enumerate() {
                if let Some((f, k)) = l {
                    // "once flooder f has been sent k replies"; a flooder of oneway calls is sent
                    // nothing, so for it the moment is "once k calls have been handled"
                    let owed = reference_output(sc.clients[*f].cid, &sc.clients[*f].calls).0.len();
                    let cap = sc.clients[*f].calls.len().saturating_sub(1);
                    let gate = if owed > (*k).min(cap) {
                        Gate { pipe: infos[*f].s2c, nuls: (*k).min(cap).min(owed.saturating_sub(1)), counter: 0 }
                    } else {
                        Gate { pipe: infos[*f].s2c, nuls: 0, counter: (*k).min(cap) as u64 }
                    };
                    if let Some(seg) = w.pipes[infos[i].c2s].segs.front_mut() {
                        seg.gate = Some(gate);
                    }
                }
            }
            if self.kind == Kind::C18 {
                for i in 0..infos.len() {
                    w.pipes[infos[i].c2s].chunk_override = Some(Chunk::Whole);
                    w.pipes[infos[i].c2s].read_cap_frame = sc.yield_first;
                }
                if sc.yield_first {
                    w.cfg.read_yields_first = true;
                    w.stat("worlds_with_uniform_yield_first_transport");
                }
            }
            let total: usize = sc.clients.iter().map(|c| c.calls.iter().map(|k| 40 + if let CallSpec::Len { pad, .. } = k { pad / 32 } else { 0 }).sum::<usize>() + 200).sum();
            w.step_cap = 400 * total as u64 + 50_000;
        }

        let run = run_server_with(world, sc.suspends, reals);
        // the stub stream noticed that it was polled again after it had reported its end
        if let Some((c, m)) = world.borrow().fail.clone() {
            if c.starts_with("stream/") {
                return Err((format!("{id}/reply-stream-polled-after-its-end"), m));
            }
        }

        // ------------------------------------------------------------------ real clients' own view
        for (i, rr) in real_results.iter().enumerate() {
            let Some(rr) = rr else { continue };
            let rr = rr.borrow();
            let spec = &sc.clients[i];
            let (reference, _) = reference_output(spec.cid, &spec.calls);
            for (k, seen) in rr.seen.iter().enumerate() {
                let Some(want) = reference.get(k) else {
                    return Err((format!("{id}/client-observed-extra-reply"), format!("real client {} (calls {:?}, program {:?}) was handed {} replies, the reference execution owes {}; surplus: {}", spec.cid, spec.calls, sc.real[i], rr.seen.len(), reference.len(), seen.value)));
                };
                let mut want = want.clone();
                if !seen.has_flag {
                    if let Some(o) = want.as_object_mut() {
                        o.remove("continues");
                    }
                }
                if want != seen.value {
                    return Err((format!("{id}/client-observed-wrong-reply"), format!("real client {} (calls {:?}, program {:?}): reply {k} came out of the client API as {}, the reference execution gives {want}", spec.cid, spec.calls, sc.real[i], seen.value)));
                }
            }
            if let Some(e) = &rr.error {
                return Err((format!("{id}/client-api-error"), format!("real client {} (calls {:?}, program {:?}) at call {}: {e}", spec.cid, spec.calls, sc.real[i], rr.at_call)));
            }
            if !rr.done {
                return Err((format!("{id}/client-blocked-at-quiescence"), format!("real client {} (calls {:?}, program {:?}) is still waiting at call {} with {} of {} replies received although nothing is in flight any more", spec.cid, spec.calls, sc.real[i], rr.at_call, rr.seen.len(), reference.len())));
            }
            if rr.seen.len() != reference.len() {
                return Err((format!("{id}/client-missed-replies"), format!("real client {} finished its program with {} of {} replies", spec.cid, rr.seen.len(), reference.len())));
            }
            world.borrow_mut().stat_add("real_client_replies_checked", rr.seen.len() as u64);
        }

        // ------------------------------------------------------------------ common oracle
        // A listener failure may end the server (`Server::run` returns the error). Then nothing more
        // is owed to anybody, but what was delivered up to that point must still be right.
        let ended_by_accept_error = run.server_finished && world.borrow().listener.accept_failures > 0;
        if ended_by_accept_error {
            world.borrow_mut().stat("server_ended_by_listener_error");
        }
        if run.server_finished && !ended_by_accept_error {
            return Err((format!("{id}/server-exited"), "Server::run returned although no listener error was injected".into()));
        }
        {
            let w = world.borrow();
            let mut ids = w.conn_ids.clone();
            ids.sort();
            ids.dedup();
            if ids.len() != w.conn_ids.len() {
                return Err((format!("{id}/duplicate-connection-id"), format!("{:?}", w.conn_ids)));
            }
        }
        let mut handled_by_cid: std::collections::HashMap<u32, Vec<u32>> = std::collections::HashMap::new();
        for h in &run.handled {
            handled_by_cid.entry(h.cid).or_default().push(h.seq);
        }
        for (ci, (spec, info)) in sc.clients.iter().zip(infos.iter()).enumerate() {
            let frames = match output_frames(world, info.s2c) {
                Ok(f) => f,
                Err(e) => return Err((format!("{id}/garbled-output"), format!("client {}: {e}", spec.cid))),
            };
            for f in &frames {
                if cid_of(f) != Some(spec.cid as u64) {
                    return Err((format!("{id}/cross-delivery"), format!("client {} received a frame that belongs to another connection: {f}", spec.cid)));
                }
            }
            let (reference, before) = reference_output(spec.cid, &spec.calls);
            let handled: Vec<u32> = handled_by_cid.get(&spec.cid).cloned().unwrap_or_default();
            if spec.faults.is_empty() && ended_by_accept_error {
                let n = frames.len().min(reference.len());
                if frames.len() > reference.len() || frames[..n] != reference[..n] {
                    return Err((format!("{id}/wrong-reply-or-order"), format!("client {} (server ended by a listener error): received {frames:?}, not a prefix of the reference {reference:?}", spec.cid)));
                }
                if handled != (0..handled.len() as u32).collect::<Vec<u32>>() {
                    return Err((format!("{id}/call-not-handled-exactly-once-in-order"), format!("client {}: service saw calls {handled:?}", spec.cid)));
                }
            } else if spec.faults.is_empty() {
                if frames != reference {
                    // classify
                    let answered_oneway: Vec<Value> = {
                        let all_answered: Vec<CallSpec> = spec
                            .calls
                            .iter()
                            .map(|c| match c {
                                CallSpec::Echo { pad, .. } => CallSpec::Echo { pad: *pad, oneway: false },
                                CallSpec::Len { pad, .. } => CallSpec::Len { pad: *pad, oneway: false },
                                CallSpec::Fail { .. } => CallSpec::Fail { oneway: false },
                                CallSpec::Slow { polls, .. } => CallSpec::Slow { polls: *polls, oneway: false },
                                s => s.clone(),
                            })
                            .collect();
                        reference_output(spec.cid, &all_answered).0
                    };
                    let class = if frames.len() > reference.len() && frames == answered_oneway {
                        "oneway-call-answered"
                    } else if frames.len() < reference.len() && reference[..frames.len()] == frames[..] {
                        "reply-missing-at-quiescence"
                    } else if frames.len() > reference.len() && frames[..reference.len()] == reference[..] {
                        "extra-reply"
                    } else {
                        "wrong-reply-or-order"
                    };
                    let first_diff = frames.iter().zip(reference.iter()).position(|(a, b)| a != b).unwrap_or(frames.len().min(reference.len()));
                    return Err((
                        format!("{id}/{class}"),
                        format!("client {} (calls {:?}): received {} frames, reference execution gives {}; first difference at frame {first_diff}: got {:?}, expected {:?}", spec.cid, spec.calls, frames.len(), reference.len(), frames.get(first_diff), reference.get(first_diff)),
                    ));
                }
                let want_handled: Vec<u32> = (0..reference_handled(&spec.calls) as u32).collect();
                if handled != want_handled {
                    return Err((format!("{id}/call-not-handled-exactly-once-in-order"), format!("client {}: service saw calls {handled:?}, expected {want_handled:?}", spec.cid)));
                }
            } else {
                // Faulty client: nothing is demanded of its own connection beyond what is checked
                // above (no foreign frames). A pure write fault additionally has an exact answer.
                let only_write_fault = spec.faults.iter().all(|f| matches!(f, Fault::WriteError { .. }));
                if only_write_fault {
                    let k = info.write_fault.unwrap();
                    let want = &reference[..k.min(reference.len())];
                    if frames != want {
                        return Err((format!("{id}/wrong-output-before-write-failure"), format!("client {} (write {k} fails): received {} frames, expected exactly the first {}", spec.cid, frames.len(), want.len())));
                    }
                    let mut w = world.borrow_mut();
                    if reference.len() > k {
                        w.stat("probe.write_failure_hit_a_reply");
                    }
                } else if let Some(ff) = info.first_faulty_call {
                    // frames owed for the calls in front of the fault must be a prefix-compatible
                    // part of the reference (never something else)
                    let n = frames.len().min(reference.len());
                    if frames.len() > reference.len() || frames[..n] != reference[..n] {
                        return Err((format!("{id}/faulty-connection-got-wrong-frames"), format!("client {}: {frames:?}", spec.cid)));
                    }
                    let _ = ff;
                }
                // Whatever ends a connection, a call the service *did* handle on it is owed its
                // answer as long as the client's transport accepts writes.
                // A write that failed once: the connection may be dropped there (nothing owed
                // afterwards) or the write may be retried, but what arrives is still the reference
                // sequence from its beginning - nothing twice, nothing skipped, nothing reordered.
                if spec.faults.iter().any(|f| matches!(f, Fault::WriteGlitch { .. })) {
                    let n = frames.len().min(reference.len());
                    if frames.len() > reference.len() || frames[..n] != reference[..n] {
                        let first_diff = frames.iter().zip(reference.iter()).position(|(a, b)| a != b).unwrap_or(n);
                        return Err((
                            format!("{id}/wrong-frames-around-transient-write-failure"),
                            format!("client {} (faults {:?}): received {} frames that are not a prefix of the reference ({}); first difference at frame {first_diff}: got {:?}, expected {:?}", spec.cid, spec.faults, frames.len(), reference.len(), frames.get(first_diff), reference.get(first_diff)),
                        ));
                    }
                    world.borrow_mut().stat("probe.transient_write_failure_checked");
                }
                let no_write_fault = !spec.faults.iter().any(|f| matches!(f, Fault::WriteError { .. } | Fault::WriteGlitch { .. }));
                if no_write_fault {
                    let h = handled.len();
                    let want_handled: Vec<u32> = (0..h as u32).collect();
                    if handled != want_handled {
                        return Err((format!("{id}/call-not-handled-exactly-once-in-order"), format!("client {} (faults {:?}): service saw calls {handled:?}", spec.cid, spec.faults)));
                    }
                    if let Some(owed) = before.get(h) {
                        if frames.len() < *owed {
                            return Err((
                                format!("{id}/reply-missing-at-quiescence"),
                                format!("client {} (calls {:?}, faults {:?}): the service handled its first {h} calls, which owe {owed} frames, but only {} arrived before the connection ended although its transport accepted every write", spec.cid, spec.calls, spec.faults, frames.len()),
                            ));
                        }
                        world.borrow_mut().stat("probe.answers_in_front_of_a_fault_all_delivered");
                    }
                }
            }
            let _ = ci;
        }

        // ------------------------------------------------------------------ C10: served while a stream is open
        if let Some((a, _j, b, _k)) = sc.stream_flood {
            let w = world.borrow();
            let info = &infos[b];
            let end = info.call_end_offsets[0];
            let readable = w.pipes[info.c2s].deliveries.iter().find(|(_, d)| *d >= end).map(|(q, _)| *q);
            let accepted = w.accepts.iter().find(|(_, p)| *p == info.c2s).map(|(q, _)| *q);
            let handled = run.handled.iter().find(|h| h.cid == sc.clients[b].cid).map(|h| h.at);
            if let (Some(r), Some(ac), Some(h)) = (readable, accepted, handled) {
                let start = r.max(ac);
                let items = w.stream_item_seqs.iter().filter(|q| **q > start && **q < h).count();
                // (The statement gives no number. Calls win the server's biased select, so on this tree
                // it is at most the one item in flight; a server that forwards a small batch of ready
                // items per turn would still be serving everybody. What is not allowed is a number
                // that grows with the length of the stream.)
                if items > 16 {
                    return Err((
                        "C10/other-client-not-served-while-stream-open".into(),
                        format!("client {} had a complete call readable from event {start} on; the server forwarded {items} more items of client {}'s open reply stream before it handled that call at event {h}", sc.clients[b].cid, sc.clients[a].cid),
                    ));
                }
                drop(w);
                world.borrow_mut().stat("probe.call_served_promptly_while_a_never_pending_stream_was_open");
            }
        }

        // ------------------------------------------------------------------ C09: relational re-run
        if self.kind == Kind::C09 {
            let do_rerun = {
                let mut w = world.borrow_mut();
                w.tape.draw(4) == 3
            };
            if do_rerun {
                let seed = {
                    let w = world.borrow();
                    w.tape.rec.iter().fold(hash_str("rerun"), |h, v| mix(h, *v as u64))
                };
                let world_b = W::new(Tape::generate(seed), false);
                {
                    let mut wb = world_b.borrow_mut();
                    let wb = &mut *wb;
                    wb.cfg = Cfg::swarm(&mut wb.tape);
                    wb.step_cap = world.borrow().step_cap;
                }
                let mut infos_b = Vec::new();
                for spec in sc.clients.iter().filter(|c| c.faults.is_empty()) {
                    infos_b.push((spec.cid, install_client(&world_b, spec)));
                }
                let _ = run_server(&world_b, sc.suspends);
                for (spec, info) in sc.clients.iter().zip(infos.iter()).filter(|(s, _)| s.faults.is_empty()) {
                    let b = infos_b.iter().find(|(cid, _)| *cid == spec.cid).unwrap();
                    let with_faulty = world.borrow().pipes[info.s2c].log.clone();
                    let without = world_b.borrow().pipes[b.1.s2c].log.clone();
                    if with_faulty != without {
                        return Err((format!("{id}/healthy-output-depends-on-faulty-client"), format!("client {}: {} bytes with the faulty clients present, {} bytes in an execution without them", spec.cid, with_faulty.len(), without.len())));
                    }
                }
                let mut w = world.borrow_mut();
                w.stat("relational_reruns_without_faulty_clients");
                let (s, e, b) = {
                    let wb = world_b.borrow();
                    (wb.steps, wb.env_events, wb.bytes_moved)
                };
                w.steps += s;
                w.env_events += e;
                w.bytes_moved += b;
            }
            let mut w = world.borrow_mut();
            for spec in &sc.clients {
                for f in &spec.faults {
                    w.stat(match f {
                        Fault::Garbage { .. } => "fault.garbage_bytes",
                        Fault::TruncatedThenEof { .. } => "fault.truncated_frame_then_eof",
                        Fault::EofMidBurst { .. } => "fault.eof_mid_burst",
                        Fault::ReadError { .. } => "fault.read_error_scripted",
                        Fault::WriteError { .. } => "fault.write_error_scripted",
                        Fault::WriteGlitch { .. } => "fault.transient_write_error_scripted",
                        Fault::UnknownMethod { .. } => "fault.unknown_method",
                        Fault::WrongTypes { .. } => "fault.wrong_parameter_types",
                        Fault::WrongShape { .. } => "fault.wrong_shape_json",
                        Fault::Oversize { .. } => "fault.oversize_unterminated",
                    });
                }
            }
            w.nontrivial = true;
        }

        // ------------------------------------------------------------------ C18: fairness monitor
        if self.kind == Kind::C18 {
            let w = world.borrow();
            let n_open_max = sc.clients.len();
            for s in &sc.singles {
                let spec = &sc.clients[*s];
                let info = &infos[*s];
                let end = info.call_end_offsets[0];
                let readable = w.pipes[info.c2s].deliveries.iter().find(|(_, d)| *d >= end).map(|(q, _)| *q);
                let accepted = w.accepts.iter().find(|(_, p)| *p == info.c2s).map(|(q, _)| *q);
                let handled = run.handled.iter().find(|h| h.cid == spec.cid).map(|h| h.at);
                let (Some(r), Some(a), Some(h)) = (readable, accepted, handled) else { continue };
                let start = r.max(a);
                if h <= start {
                    continue;
                }
                // (1) unchanged-set sub-intervals
                let mut cuts: Vec<u64> = w.set_changes.iter().copied().filter(|q| *q > start && *q < h).collect();
                cuts.sort();
                let mut bounds = vec![start];
                bounds.extend(cuts.iter().copied());
                bounds.push(h);
                for win in bounds.windows(2) {
                    let (lo, hi) = (win[0], win[1]);
                    let mut per: std::collections::BTreeMap<u32, u32> = Default::default();
                    for x in run.handled.iter().filter(|x| x.at > lo && x.at < hi && x.cid != spec.cid) {
                        *per.entry(x.cid).or_insert(0) += 1;
                    }
                    if let Some((cid, n)) = per.iter().find(|(_, n)| **n >= 2) {
                        return Err((
                            "C18/two-calls-from-one-connection-while-another-waits".into(),
                            format!("client {} had a complete call readable from event {start} until it was handled at {h}; with the connection set unchanged in ({lo},{hi}) connection {cid} was served {n} calls", spec.cid),
                        ));
                    }
                }
                // (2) overall bound
                let others = run.handled.iter().filter(|x| x.at > start && x.at < h && x.cid != spec.cid).count();
                let t = cuts.len();
                if others > n_open_max * (t + 1) {
                    return Err(("C18/waiting-bound-exceeded".into(), format!("client {} waited for {others} other calls; bound is {} connections x ({t} transitions + 1)", spec.cid, n_open_max)));
                }
            }
            // (3) The same question with a *flooder* as the waiting party: each of its calls that is
            // completely readable (its whole burst was delivered) waits from the moment its previous
            // call was handled; until it is handled itself nobody else may be served twice while the
            // connection set is unchanged. Not in worlds with the cooperative-yield transport (there a
            // connection's call needs two polls and only single callers are judged, see `rule`).
            let mut flooder_intervals = 0u64;
            if !sc.yield_first && sc.real.iter().all(|r| r.is_none()) {
                let ats: Vec<u64> = run.handled.iter().map(|h| h.at).collect();
                let mut changes: Vec<u64> = w.set_changes.clone();
                changes.sort();
                for (ci, spec) in sc.clients.iter().enumerate() {
                    if sc.singles.contains(&ci) || sc.late[ci].is_some() || spec.calls.len() < 2 || !spec.faults.is_empty() {
                        continue;
                    }
                    if spec.calls.iter().any(|k| matches!(k, CallSpec::Stream { .. } | CallSpec::Deferred { .. })) {
                        continue;
                    }
                    let info = &infos[ci];
                    let Some(accepted) = w.accepts.iter().find(|(_, p)| *p == info.c2s).map(|(q, _)| *q) else { continue };
                    let mine: Vec<u64> = run.handled.iter().filter(|h| h.cid == spec.cid).map(|h| h.at).collect();
                    let dels = &w.pipes[info.c2s].deliveries;
                    for (i, h) in mine.iter().enumerate() {
                        let Some(end) = info.call_end_offsets.get(i) else { break };
                        let Some(readable) = dels.iter().find(|(_, d)| *d >= *end).map(|(q, _)| *q) else { break };
                        let start = readable.max(accepted).max(if i > 0 { mine[i - 1] } else { 0 });
                        if *h <= start {
                            continue;
                        }
                        let a = ats.partition_point(|x| *x <= start);
                        let b = ats.partition_point(|x| *x < *h);
                        if b <= a + 1 {
                            continue;
                        }
                        flooder_intervals += 1;
                        let mut per: std::collections::BTreeMap<u32, u32> = Default::default();
                        let mut next_change = changes.partition_point(|x| *x <= start);
                        for x in &run.handled[a..b] {
                            while next_change < changes.len() && changes[next_change] < x.at {
                                per.clear();
                                next_change += 1;
                            }
                            if x.cid == spec.cid {
                                continue;
                            }
                            let n = per.entry(x.cid).or_insert(0);
                            *n += 1;
                            if *n >= 2 {
                                return Err((
                                    "C18/two-calls-from-one-connection-while-another-waits".into(),
                                    format!("client {} (a pipelining client whose whole burst had been delivered) had its call {i} completely readable from event {start} until it was handled at {h}; with the connection set unchanged, connection {} was served {n} calls in between", spec.cid, x.cid),
                                ));
                            }
                        }
                    }
                }
            }
            drop(w);
            let mut w = world.borrow_mut();
            w.stat_add("fairness_intervals_checked", sc.singles.len() as u64);
            w.stat_add("fairness_intervals_checked_with_a_pipelining_client_waiting", flooder_intervals);
        }
        Ok(world.borrow().scenario.clone())
    }

    fn watchdog_secs(&self) -> Option<u64> {
        // C18's real-socket slice issues syscalls
        if self.kind == Kind::C18 {
            Some(120)
        } else {
            None
        }
    }

    fn systematic(&self, tier: Tier) -> Vec<Vec<u32>> {
        let mut tapes = Vec::new();
        let (specs, digits, base): (u32, usize, u32) = match (self.kind, tier) {
            (Kind::C08, Tier::Quick) => (12, 7, 3),
            (Kind::C08, Tier::Thorough) => (12, 9, 3),
            (Kind::C10, Tier::Quick) => (12, 7, 3),
            (Kind::C10, Tier::Thorough) => (12, 9, 3),
            (Kind::C18, Tier::Quick) => (8, 7, 3),
            (Kind::C18, Tier::Thorough) => (8, 9, 3),
            (Kind::C09, Tier::Quick) => (2, 6, 3),
            (Kind::C09, Tier::Thorough) => (2, 8, 3),
        };
        let combos = (base as usize).pow(digits as u32);
        for spec in 0..specs {
            let heads: Vec<Vec<u32>> = if self.kind == Kind::C09 {
                let mut h = Vec::new();
                for fk in 0..fault_kinds() as u32 {
                    for at in 0..3u32 {
                        h.push(vec![SYS_MODE, spec, fk, at]);
                    }
                }
                h
            } else {
                vec![vec![SYS_MODE, spec]]
            };
            if spec == 0 && self.kind != Kind::C18 {
                // long-lived server instances: sizes x flavours (the biggest ones in thorough only)
                let sizes: u32 = if tier == Tier::Quick { 6 } else { 10 };
                for n in 0..sizes {
                    for fl in 0..2u32 {
                        tapes.push(vec![LONG_MODE, 63, 0, n, fl]);
                    }
                }
            }
            for head in heads {
                for c in 0..combos {
                    let mut v = head.clone();
                    let mut x = c;
                    for _ in 0..digits {
                        v.push((x % base as usize) as u32);
                        x /= base as usize;
                    }
                    tapes.push(v);
                }
            }
        }
        tapes
    }

    fn random_runs(&self, tier: Tier) -> u64 {
        match (self.kind, tier) {
            (Kind::C18, Tier::Quick) => 40_000,
            (Kind::C18, Tier::Thorough) => 600_000,
            (_, Tier::Quick) => 100_000,
            (_, Tier::Thorough) => 2_000_000,
        }
    }

    fn rule(&self) -> String {
        let common = "Each execution = the real Server::run (one task) over the stub listener with N stub client connections driven by byte-level scripts; the tape decides connection arrival, which client's bytes arrive next and in what pieces, short reads, spurious polls, suspension of the service and of transport writes, and environment events landing inside seam calls (between two iterations of the server loop). Oracle: for every healthy client the frames it received equal the sequential reference execution of the pure service for that client alone (one reply or error per non-oneway call, in order, nothing for oneway, nothing else), every frame carries the client's own id, the service handled each call exactly once in per-connection order, connection ids are distinct, and the server future is still pending. Non-trivial = a partial delivery, short read, stall, suspension or fault actually happened; distinct = distinct event-sequence hash.";
        match self.kind {
            Kind::C08 => format!("{common} C08: 1..4 clients x 0..5 calls (one world in sixteen: 8..40 clients; one in sixteen: one client with 30..200 calls; one in sixteen: calls with payloads around 2^16, 2^17, 2^18 and a little over 1 MiB; a client is, by tape, either a byte-level script or a real zlink client using the low-level API, proxy methods or chains) (plain, oneway, error-producing, slow), pipelined or ping-pong; systematic part enumerates every interleaving of arrivals, frame deliveries and closes for 12 two-client shapes."),
            Kind::C09 => format!("{common} C09: 1..3 healthy clients, 1..2 faulty ones (one world in sixteen: 4..29 healthy and 1..8 faulty; one in sixteen: a healthy client with 30..150 calls) (garbage, truncated frame then EOF, EOF mid-burst, read error, write error from the k-th write on, unknown method, wrong parameter types, wrong-shape JSON, oversize unterminated frame against a hook-lowered limit) and a probe client that connects after everything is quiet and must be served. Systematic part: every fault kind x every position in a 3-call script x every interleaving with a healthy client. A quarter of the runs re-execute the scenario without the faulty clients under a different schedule and compare the healthy clients' output bytes."),
            Kind::C10 => format!("{common} C10: clients (scripted or real zlink clients; scale swarm as in C08, plus one world in sixteen with streams of up to 150 items) mix streaming calls (0..4 items, per-item continues flags, ending or never ending) with plain calls pipelined before and behind them; stream items become available at tape-chosen moments; a write failure may hit any reply of one client (then exactly the frames before the failing write must have arrived, and everybody else is unaffected)."),
            Kind::C18 => format!("{common} C18: 2..5 connections (one world in sixteen: 6..30; one in eight: the waiting call is 64 KiB..1.3 MiB long), flooders with 20..60 pipelined calls and single callers whose one complete call appears after a tape-chosen number of flooder replies, optional short-lived and streaming clients. Fairness monitor over the recorded service order: while the connection set is unchanged and a single caller's complete call is readable, no other connection is served twice; overall at most N x (transitions + 1) other calls are served before it."),
        }
    }

    fn components(&self) -> Value {
        json!({
            "real": ["zlink_core::Server::run", "server::SelectAll", "Connection / ReadConnection / WriteConnection", "Call deserialiser", "Reply / ReplyError serialisers", "json_ser"],
            "stub": ["SimListener (ours, behind zlink's Listener trait)", "SimSocket (ours)", "SimService: pure recording service (ours, behind zlink's Service trait)", "SimStream reply stream (ours)", "scripted clients", "executor"],
        })
    }

    fn assumptions(&self) -> Vec<String> {
        let mut v = vec![
            "every transport write eventually completes or fails (a client that never drains its socket is not in any property's fault list: the server awaits writes inline)".to_string(),
            "the listener itself never fails (an accept error ends Server::run by design)".to_string(),
        ];
        if self.kind == Kind::C18 {
            v.push("the waiting party is always a single caller whose call arrives in one delivery, and the read_pending_despite_data buggify site is off, so that 'a complete call is waiting' means the same thing to the monitor and to the server".into());
        }
        v
    }
}
