//! C08, one more instantiation of the `Service` trait: a service whose method-call type does not
//! look at the call at all (`deserialize_ignored_any`: a service that treats every call alike - a
//! liveness probe, a counter, a sink). The call *flags* still belong to the envelope and must be
//! honoured: a oneway call gets nothing, every other call exactly one reply.
//!
//! The service cannot know which client a call came from, so its replies carry a global serial
//! number only. Oracle: every client without a scripted fault receives exactly one reply per call
//! that is not oneway; the serial numbers on one connection increase; no serial number appears
//! twice anywhere; the numbers answered are exactly the numbers of the handled calls the server
//! reported as not oneway; every call was handled once.

use crate::{
    exec::Exec,
    runner::Verdict,
    server_world::*,
    world::{yield_n, Cfg, SimListener, World},
};
use serde::{Deserialize, Serialize};
use serde_json::json;
use std::{cell::RefCell, rc::Rc};
use zlink_core::{service::MethodReply, Call, Reply, Server, Service};

#[derive(Debug)]
pub struct Opaque;

impl<'de> Deserialize<'de> for Opaque {
    fn deserialize<D: serde::Deserializer<'de>>(d: D) -> Result<Self, D::Error> {
        d.deserialize_ignored_any(serde::de::IgnoredAny).map(|_| Opaque)
    }
}

#[derive(Debug, Serialize)]
pub struct Serial {
    n: u64,
}

struct OpaqueSvc {
    world: World,
    /// (serial number, oneway as the server reported it)
    log: Rc<RefCell<Vec<(u64, bool)>>>,
    suspends: bool,
}

impl std::fmt::Debug for OpaqueSvc {
    fn fmt(&self, f: &mut std::fmt::Formatter<'_>) -> std::fmt::Result {
        write!(f, "OpaqueSvc")
    }
}

impl Service for OpaqueSvc {
    type MethodCall<'de> = Opaque;
    type ReplyParams<'ser> = Serial;
    type ReplyStreamParams = ();
    type ReplyStream = futures_util::stream::Empty<Reply<()>>;
    type ReplyError<'ser> = SvcError;

    async fn handle<'ser>(&'ser mut self, call: Call<Self::MethodCall<'_>>) -> MethodReply<Self::ReplyParams<'ser>, Self::ReplyStream, Self::ReplyError<'ser>> {
        let (n, extra) = {
            let mut w = self.world.borrow_mut();
            let n = self.log.borrow().len() as u64;
            w.ev("svc.handle", n, call.oneway() as u64);
            self.log.borrow_mut().push((n, call.oneway()));
            w.counter += 1;
            let extra = if self.suspends && w.tape.chance(1, 4) { 1 + w.tape.draw(3) } else { 0 };
            (n, extra)
        };
        if extra > 0 {
            yield_n(&self.world, extra).await;
        }
        MethodReply::Single(Some(Serial { n }))
    }
}

pub fn run(world: &World) -> Verdict {
    let id = "C08";
    let (clients, suspends) = {
        let mut w = world.borrow_mut();
        w.cfg = Cfg::swarm(&mut w.tape);
        let t = &mut w.tape;
        let n = 1 + t.draw(4);
        let mut clients = Vec::new();
        for c in 0..n {
            let ncalls = if t.draw(16) == 15 { 20 + t.draw(100) } else { t.draw(7) };
            let calls: Vec<CallSpec> = (0..ncalls).map(|_| gen_call(t, false, true)).collect();
            clients.push(ClientSpec { cid: 10 + c as u32, calls, faults: vec![], pingpong: t.draw(3) == 2, closes: t.draw(2) == 1, after_quiet: false });
        }
        let mask = match t.draw(3) {
            0 => 0,
            _ => 1 + t.draw(127) as u32,
        };
        set_call_spelling(mask);
        let suspends = t.draw(3) == 2;
        w.stat("worlds_with_a_service_that_ignores_the_content_of_calls");
        let total: usize = clients.iter().map(|c| c.calls.len() * 40 + 200).sum();
        w.step_cap = 400 * total as u64 + 50_000;
        (clients, suspends)
    };
    if world.borrow().want_sample {
        world.borrow_mut().scenario = Some(json!({"mode": "service whose call type ignores the call (deserialize_ignored_any)", "clients": clients.iter().map(describe_client).collect::<Vec<_>>()}));
    }
    // pingpong clients wait for a reply per call: with a oneway call in the script they would wait
    // for ever; install_client gates on the reference output, which counts oneway calls correctly
    let infos: Vec<ConnInfo> = clients.iter().map(|c| install_client(world, c)).collect();
    let log: Rc<RefCell<Vec<(u64, bool)>>> = Rc::new(RefCell::new(Vec::new()));
    let finished = Rc::new(RefCell::new(false));
    {
        let server = Server::new(SimListener::new(world.clone()), OpaqueSvc { world: world.clone(), log: log.clone(), suspends });
        let mut ex = Exec::new();
        let fin = finished.clone();
        ex.spawn(async move {
            let _ = server.run().await;
            *fin.borrow_mut() = true;
        });
        ex.run(world);
    }
    set_call_spelling(0);
    if *finished.borrow() {
        return Err((format!("{id}/server-exited"), "Server::run returned although no listener error was injected".into()));
    }
    let log = log.borrow();
    let total_calls: usize = clients.iter().map(|c| c.calls.len()).sum();
    let total_oneway: usize = clients.iter().map(|c| c.calls.iter().filter(|k| k.oneway()).count()).sum();
    let mut answered: Vec<u64> = Vec::new();
    for (spec, info) in clients.iter().zip(infos.iter()) {
        let frames = match output_frames(world, info.s2c) {
            Ok(f) => f,
            Err(e) => return Err((format!("{id}/garbled-output"), format!("client {}: {e}", spec.cid))),
        };
        let owed = spec.calls.iter().filter(|k| !k.oneway()).count();
        let mut last: Option<u64> = None;
        for f in &frames {
            let n = f.get("parameters").and_then(|p| p.get("n")).and_then(|n| n.as_u64());
            let ok = n.is_some() && f.get("continues") == Some(&json!(false)) && f.as_object().map(|o| o.len() == 2).unwrap_or(false);
            if !ok {
                return Err((format!("{id}/wrong-reply-or-order"), format!("client {} received {f}, which is not a reply of this service", spec.cid)));
            }
            if last.map(|l| n.unwrap() <= l).unwrap_or(false) {
                return Err((format!("{id}/wrong-reply-or-order"), format!("client {}: serial numbers on one connection must increase, got {:?} after {:?}", spec.cid, n, last)));
            }
            last = n;
            answered.push(n.unwrap());
        }
        if frames.len() > owed {
            let class = if frames.len() == spec.calls.len() { "oneway-call-answered" } else { "extra-reply" };
            return Err((format!("{id}/{class}"), format!("client {} (calls {:?}; the service ignores the content of calls): {} replies for {owed} calls that are not oneway", spec.cid, spec.calls, frames.len())));
        }
        if frames.len() < owed {
            return Err((format!("{id}/reply-missing-at-quiescence"), format!("client {} (calls {:?}; the service ignores the content of calls): {} replies for {owed} calls that are not oneway", spec.cid, spec.calls, frames.len())));
        }
    }
    if log.len() != total_calls {
        return Err((format!("{id}/call-not-handled-exactly-once-in-order"), format!("{} calls were sent, the service handled {}", total_calls, log.len())));
    }
    let seen_oneway = log.iter().filter(|e| e.1).count();
    if seen_oneway != total_oneway {
        return Err((format!("{id}/oneway-flag-lost"), format!("{total_oneway} of the calls sent were flagged oneway; the server reported {seen_oneway} of the calls it handed to the service as oneway")));
    }
    answered.sort_unstable();
    let want: Vec<u64> = log.iter().filter(|e| !e.1).map(|e| e.0).collect();
    if answered != want {
        return Err((format!("{id}/wrong-reply-or-order"), format!("the calls answered ({} of them) are not exactly the handled calls that were not oneway ({})", answered.len(), want.len())));
    }
    world.borrow_mut().stat_add("opaque_service_calls_checked", total_calls as u64);
    Ok(world.borrow().scenario.clone())
}
