//! C10 with the real `notified::State` streams of zlink-tokio / zlink-smol as the service's
//! reply streams: subscribers (`Watch`, a `more` call) and setters (`Set`) on one real
//! `Server::run`. An item for a subscriber exists only because another client's call was
//! handled, so a server that stops looking after other connections (or a stream that loses its
//! wake-up) leaves a subscriber without the latest value at quiescence.

use crate::{
    exec::Exec,
    runner::Verdict,
    tape::Tape,
    world::{yield_n, Cfg, Gate, PendingConn, SimListener, World},
};
use futures_util::Stream;
use serde::{Deserialize, Serialize};
use serde_json::{json, Value};
use std::{
    cell::RefCell,
    pin::Pin,
    rc::Rc,
    task::{Context, Poll},
};
use zlink_core::{service::MethodReply, Call, Reply, ReplyError, Server, Service};

#[derive(Debug, Deserialize)]
#[serde(tag = "method", content = "parameters")]
enum NMethod {
    #[serde(rename = "org.example.Watch")]
    Watch { sub: u32 },
    #[serde(rename = "org.example.Set")]
    Set { v: u64, polls: u32 },
    #[serde(rename = "org.example.Get")]
    Get,
}

#[derive(Debug, Clone, Serialize, PartialEq)]
pub struct Val {
    v: u64,
}

impl From<u64> for Val {
    fn from(v: u64) -> Val {
        Val { v }
    }
}

#[derive(Debug, ReplyError)]
#[zlink(interface = "org.example", crate = "zlink_core")]
enum NErr {
    #[allow(dead_code)]
    Never,
}

#[derive(Debug)]
pub enum NStream {
    Tokio(zlink_tokio::notified::Stream<Val>),
    Smol(zlink_smol::notified::Stream<Val>),
}

impl Stream for NStream {
    type Item = Reply<Val>;
    fn poll_next(self: Pin<&mut Self>, cx: &mut Context<'_>) -> Poll<Option<Self::Item>> {
        match self.get_mut() {
            NStream::Tokio(s) => Pin::new(s).poll_next(cx),
            NStream::Smol(s) => Pin::new(s).poll_next(cx),
        }
    }
}

#[derive(Debug, Clone, Copy, PartialEq)]
enum Logged {
    Watch { sub: u32, at: u64 },
    Set { v: u64, at: u64 },
}

struct NSvc {
    world: World,
    tokio: zlink_tokio::notified::State<u64, Val>,
    smol: zlink_smol::notified::State<u64, Val>,
    use_smol: bool,
    log: Rc<RefCell<Vec<Logged>>>,
}

impl std::fmt::Debug for NSvc {
    fn fmt(&self, f: &mut std::fmt::Formatter<'_>) -> std::fmt::Result {
        write!(f, "NSvc")
    }
}

impl Service for NSvc {
    type MethodCall<'de> = NMethod;
    type ReplyParams<'ser> = Val;
    type ReplyStreamParams = Val;
    type ReplyStream = NStream;
    type ReplyError<'ser> = NErr;

    async fn handle<'ser>(&'ser mut self, call: Call<Self::MethodCall<'_>>) -> MethodReply<Val, NStream, NErr> {
        match call.method() {
            NMethod::Watch { sub } => {
                let mut w = self.world.borrow_mut();
                w.ev("svc.watch", *sub as u64, 0);
                let at = w.seq;
                w.set_changes.push(at);
                self.log.borrow_mut().push(Logged::Watch { sub: *sub, at });
                MethodReply::Multi(if self.use_smol { NStream::Smol(self.smol.stream()) } else { NStream::Tokio(self.tokio.stream()) })
            }
            NMethod::Set { v, polls } => {
                // the handler takes a while before it publishes (a timer, a lookup)
                yield_n(&self.world, *polls as usize).await;
                if self.use_smol {
                    self.smol.set(*v).await;
                } else {
                    self.tokio.set(*v).await;
                }
                let mut w = self.world.borrow_mut();
                w.ev("svc.set", *v, 0);
                let at = w.seq;
                self.log.borrow_mut().push(Logged::Set { v: *v, at });
                MethodReply::Single(Some(Val { v: *v }))
            }
            NMethod::Get => {
                let v = if self.use_smol { self.smol.get() } else { self.tokio.get() };
                self.world.borrow_mut().ev("svc.get", v, 0);
                MethodReply::Single(Some(Val { v }))
            }
        }
    }
}

struct Client {
    /// values this client sets, in order (empty for subscribers)
    sets: Vec<(u64, u32)>,
    gets_before: usize,
    watches: bool,
    pingpong: bool,
    write_error_at: Option<usize>,
    c2s: usize,
    s2c: usize,
}

fn frames_of(world: &World, pipe: usize) -> Result<Vec<Value>, String> {
    let w = world.borrow();
    let log = &w.pipes[pipe].log;
    if log.is_empty() {
        return Ok(vec![]);
    }
    if log.last() != Some(&0) {
        return Err("output does not end with a terminator".into());
    }
    log[..log.len() - 1].split(|b| *b == 0).map(|f| serde_json::from_slice::<Value>(f).map_err(|e| format!("frame is not JSON: {e}"))).collect()
}

pub fn run(world: &World) -> Verdict {
    // ---- scenario
    let (mut clients, use_smol, mode) = {
        let mut w = world.borrow_mut();
        w.cfg = Cfg::swarm(&mut w.tape);
        let t: &mut Tape = &mut w.tape;
        let use_smol = t.draw(2) == 1;
        let n_subs = 1 + t.draw(3);
        let n_setters = 1 + t.draw(2);
        let mut next_v = 1u64;
        let mut clients = Vec::new();
        for _ in 0..n_subs {
            clients.push(Client { sets: vec![], gets_before: t.draw(3), watches: true, pingpong: false, write_error_at: if t.draw(8) == 7 { Some(t.draw(4)) } else { None }, c2s: 0, s2c: 0 });
        }
        for _ in 0..n_setters {
            let many = t.draw(8) == 7;
            let k = 1 + t.draw(if many { 40 } else { 6 });
            let mut sets = Vec::new();
            for _ in 0..k {
                sets.push((next_v, [0u32, 0, 1, 2, 3][t.draw(5)]));
                next_v += 1;
            }
            clients.push(Client { sets, gets_before: t.draw(2), watches: false, pingpong: t.draw(3) == 2, write_error_at: None, c2s: 0, s2c: 0 });
        }
        let mode = format!("notified service ({}), {n_subs} subscribers, {n_setters} setters, cfg={:?}", if use_smol { "zlink-smol" } else { "zlink-tokio" }, w.cfg);
        (clients, use_smol, mode)
    };
    {
        let mut w = world.borrow_mut();
        w.stat(if use_smol { "worlds_with_real_smol_notified_streams" } else { "worlds_with_real_tokio_notified_streams" });
        let mut total = 0usize;
        for (ci, c) in clients.iter_mut().enumerate() {
            c.c2s = w.new_pipe();
            c.s2c = w.sink_pipe();
            if let Some(k) = c.write_error_at {
                w.pipes[c.s2c].write_err_from = Some(k);
            }
            let mut replies_before = 0usize;
            let mut first = true;
            let mut push = |w: &mut crate::world::W, bytes: Vec<u8>, gate_nuls: usize| {
                let gate = if c.pingpong && !first { Some(Gate { pipe: c.s2c, nuls: gate_nuls, counter: 0 }) } else { None };
                if c.pingpong || first {
                    w.push_seg(c.c2s, &bytes, gate);
                } else {
                    match w.pipes[c.c2s].segs.back_mut() {
                        Some(seg) => seg.bytes.extend(bytes.iter().copied()),
                        None => w.push_seg(c.c2s, &bytes, None),
                    }
                }
                first = false;
            };
            for _ in 0..c.gets_before {
                let mut b = serde_json::to_vec(&json!({"method": "org.example.Get"})).unwrap();
                b.push(0);
                push(&mut w, b, replies_before);
                replies_before += 1;
            }
            for (v, polls) in &c.sets {
                let mut b = serde_json::to_vec(&json!({"method": "org.example.Set", "parameters": {"v": v, "polls": polls}})).unwrap();
                b.push(0);
                push(&mut w, b, replies_before);
                replies_before += 1;
            }
            if c.watches {
                let mut b = serde_json::to_vec(&json!({"method": "org.example.Watch", "parameters": {"sub": ci}, "more": true})).unwrap();
                b.push(0);
                push(&mut w, b, replies_before);
            }
            total += 4 + c.sets.len() + c.gets_before;
            w.listener.pending.push(PendingConn { c2s: c.c2s, s2c: c.s2c, after_quiet: false });
        }
        w.step_cap = 4_000 * total as u64 + 50_000;
        if w.want_sample {
            w.scenario = Some(json!({"mode": mode, "clients": clients.iter().map(|c| json!({"gets_before": c.gets_before, "sets": c.sets, "watches": c.watches, "pingpong": c.pingpong, "write_error_at": c.write_error_at})).collect::<Vec<_>>()}));
        }
    }

    // ---- the real server with the real notified state
    let log: Rc<RefCell<Vec<Logged>>> = Rc::new(RefCell::new(Vec::new()));
    let finished = Rc::new(RefCell::new(false));
    {
        let svc = NSvc { world: world.clone(), tokio: zlink_tokio::notified::State::new(0), smol: zlink_smol::notified::State::new(0), use_smol, log: log.clone() };
        let server = Server::new(SimListener::new(world.clone()), svc);
        let mut ex = Exec::new();
        let fin = finished.clone();
        ex.spawn(async move {
            let _ = server.run().await;
            *fin.borrow_mut() = true;
        });
        ex.run(world);
    }
    if *finished.borrow() {
        return Err(("C10/server-exited".into(), "Server::run returned although no listener error was injected".into()));
    }

    // ---- oracle
    let log = log.borrow();
    let handled_sets: Vec<(u64, u64)> = log.iter().filter_map(|l| if let Logged::Set { v, at } = l { Some((*v, *at)) } else { None }).collect();
    let watch_at = |ci: usize| log.iter().find_map(|l| if let Logged::Watch { sub, at } = l { if *sub as usize == ci { Some(*at) } else { None } } else { None });
    let total_sets: usize = clients.iter().map(|c| c.sets.len()).sum();
    if handled_sets.len() != total_sets {
        return Err(("C10/reply-missing-at-quiescence".into(), format!("{} of {total_sets} Set calls were handled by quiescence ({mode})", handled_sets.len())));
    }
    for (ci, c) in clients.iter().enumerate() {
        let frames = frames_of(world, c.s2c).map_err(|e| ("C10/garbled-output".to_string(), format!("client {ci}: {e}")))?;
        let n_plain = c.gets_before + c.sets.len();
        if c.write_error_at.is_some() {
            // a subscriber whose transport fails: nothing more is demanded of it
            continue;
        }
        if frames.len() < n_plain {
            return Err(("C10/reply-missing-at-quiescence".into(), format!("client {ci}: {} of {n_plain} replies to its Get/Set calls arrived ({mode})", frames.len())));
        }
        // replies to Get / Set, in order
        for (i, f) in frames[..n_plain].iter().enumerate() {
            if f.get("continues") != Some(&json!(false)) || f["parameters"]["v"].as_u64().is_none() {
                return Err(("C10/wrong-reply-or-order".into(), format!("client {ci}: reply {i} is {f}")));
            }
            if i >= c.gets_before {
                let want = c.sets[i - c.gets_before].0;
                if f["parameters"]["v"].as_u64() != Some(want) {
                    return Err(("C10/wrong-reply-or-order".into(), format!("client {ci}: reply {i} should confirm Set({want}) but is {f}")));
                }
            }
        }
        if !c.watches {
            if frames.len() != n_plain {
                return Err(("C10/extra-reply".into(), format!("client {ci}: {} frames for {n_plain} calls", frames.len())));
            }
            continue;
        }
        // subscriber: items = a subsequence of the handled sets, each marked continuing, ending with
        // the latest value if anything was set after the subscription was made
        let my_watch_at = match watch_at(ci) {
            Some(a) => a,
            None => return Err(("C10/reply-missing-at-quiescence".into(), format!("client {ci}: its Watch call was never handled ({mode})"))),
        };
        let items: Vec<u64> = frames[n_plain..]
            .iter()
            .map(|f| {
                if f.get("continues") != Some(&json!(true)) {
                    return Err(("C10/wrong-reply-or-order".to_string(), format!("client {ci}: stream item without continues=true: {f}")));
                }
                f["parameters"]["v"].as_u64().ok_or_else(|| ("C10/wrong-reply-or-order".to_string(), format!("client {ci}: stream item {f}")))
            })
            .collect::<Result<_, _>>()?;
        let mut pos = 0usize;
        for it in &items {
            match handled_sets[pos..].iter().position(|(v, _)| v == it) {
                Some(k) => pos += k + 1,
                None => return Err(("C10/wrong-reply-or-order".into(), format!("client {ci}: received values {items:?}, which is not a subsequence of the values in the order they were set {:?}", handled_sets.iter().map(|s| s.0).collect::<Vec<_>>()))),
            }
        }
        let after: Vec<u64> = handled_sets.iter().filter(|(_, at)| *at > my_watch_at).map(|(v, _)| *v).collect();
        if let Some(latest) = after.last() {
            if items.last() != Some(latest) {
                return Err((
                    "C10/latest-value-not-delivered".into(),
                    format!("client {ci} subscribed at event {my_watch_at}; values set afterwards: {after:?}; it received {items:?} and nothing is in flight any more ({mode})"),
                ));
            }
            world.borrow_mut().stat("probe.subscriber_holds_latest_value_at_quiescence");
        }
    }
    Ok(world.borrow_mut().scenario.take())
}
