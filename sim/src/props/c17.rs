//! C17 — buffers are bounded: oversized traffic is refused, smaller traffic accepted.
//!
//! Uses the only hook in /repo: under `--cfg zlink_verif` the buffer size limit is a per-thread
//! knob (`zlink_core::connection::verif_hooks::set_max_buffer_size`).

use crate::{
    exec::Exec,
    frames::{self, Res},
    runner::{Prop, Tier, Verdict},
    world::{Cfg, Chunk, Gate, World, W},
};
use serde::Serialize;
use serde_json::{json, Value};
use std::{cell::RefCell, rc::Rc};
use zlink_core::{connection::verif_hooks, Call, Connection};

pub struct Bounded {
    /// Allow the (slow, 100 MiB) production-limit case.
    pub production: bool,
}

const SYS_MODE: u32 = 7;
const PRODUCTION: usize = 100 * 1024 * 1024;
const LIMITS: [usize; 6] = [1024, 2048, 4096, 8192, 16384, 65536];

#[derive(Debug, Serialize)]
#[serde(tag = "method", content = "parameters")]
enum MethOut {
    #[serde(rename = "org.example.Echo")]
    Echo { text: String, n: u32 },
}

fn out_call(len: usize) -> Call<MethOut> {
    Call::new(MethOut::Echo { text: "x".repeat(len), n: 1 })
}

fn out_wire_len(len: usize) -> usize {
    // {"method":"org.example.Echo","parameters":{"text":"","n":1}} + len
    serde_json::to_vec(&json!({"method": "org.example.Echo", "parameters": {"text": "", "n": 1}})).unwrap().len() + len
}

#[derive(Debug, Clone, Copy, PartialEq)]
enum Dir {
    /// k small frames pipelined in one burst whose total exceeds the limit
    InBurst,
    InValid,
    InFiller,
    OutEmpty,
    OutAfterSmall,
    /// messages enqueued one after the other without a flush until one is refused
    OutPipeline,
}

/// Limits for the pipeline direction: also beyond 1 MiB and not powers of two (all multiples of the
/// 256-byte growth step, like the production value, because the limit is enforced per step).
const PIPE_LIMITS: [usize; 8] = [2048, 16384, 65536, 65536 + 256 * 37, (1 << 20) + 256 * 3, 3 << 19, (5 << 19) + 256 * 11, 3 << 20];

#[derive(Debug, Clone)]
struct Case {
    limit: usize,
    dir: Dir,
    /// frame / message size in bytes (without terminator)
    n: usize,
    /// small frames received (and consumed) before the big one, inbound only
    warmup: usize,
    kind: usize,
}

/// One receive; a pending receive may be abandoned (world's cancel plan) and is then started over.
async fn recv_retrying(world: &World, conn: &mut Connection<crate::world::SimSocket>, kind: usize) -> Res {
    loop {
        if let Some(r) = crate::world::cancellable(world, frames::recv_kind(conn, kind)).await {
            return r;
        }
    }
}

fn sized_frame(kind: usize, n: usize) -> Vec<u8> {
    let base = frames::valid_frame(kind, 0, 0, 3).len();
    let f = frames::valid_frame(kind, 0, n.saturating_sub(base), 3);
    f
}

impl Prop for Bounded {
    fn id(&self) -> &'static str {
        "C17"
    }

    fn run(&self, world: &World, want_sample: bool) -> Verdict {
        let (case, mode) = {
            let mut w = world.borrow_mut();
            let t = &mut w.tape;
            let sys = t.draw(8) as u32 == SYS_MODE;
            let li = if sys { t.draw(LIMITS.len() + 1) } else { 0 };
            if sys && li == LIMITS.len() && t.draw(64) == 63 && self.production {
                // production limit: unterminated stream, the receive must fail at ~100 MiB
                w.cfg = Cfg::plain();
                w.cfg.bias = 3;
                w.cfg.chunk = Chunk::Whole;
                w.stat("production_limit_run");
                (Case { limit: PRODUCTION, dir: Dir::InFiller, n: PRODUCTION + 4096, warmup: 0, kind: 0 }, "production limit".to_string())
            } else if sys && li == LIMITS.len() && t.draw(64) == 62 && self.production {
                // production limit: 110 pipelined frames of 1 MiB each in one burst
                w.cfg = Cfg::plain();
                w.cfg.bias = 3;
                w.cfg.chunk = Chunk::Whole;
                w.stat("production_limit_run");
                (Case { limit: PRODUCTION, dir: Dir::InBurst, n: 1 << 20, warmup: 110, kind: 0 }, "production limit burst".to_string())
            } else if sys {
                let limit = LIMITS[li % LIMITS.len()];
                let dir = [Dir::InValid, Dir::InFiller, Dir::OutEmpty, Dir::OutAfterSmall][t.draw(4)];
                let m = 1 + t.draw(limit / 256 + 2);
                let d = t.draw(7);
                let n = 256 * m + d - 3;
                let style = t.draw(3);
                let kind = [0usize, 5][t.draw(2)];
                w.cfg = Cfg::plain();
                w.cfg.bias = 3;
                w.cfg.chunk = [Chunk::Whole, Chunk::RandomAny, Chunk::RandomSmall][style].clone();
                (Case { limit, dir, n, warmup: 0, kind }, format!("systematic style={style}"))
            } else {
                let cfg = Cfg::swarm(t);
                let limit = LIMITS[t.draw(LIMITS.len() - 1)];
                let dir = [Dir::InValid, Dir::InFiller, Dir::OutEmpty, Dir::OutAfterSmall, Dir::InBurst, Dir::OutPipeline][t.draw(6)];
                // (one pipeline run in sixty-four works at tens of MiB, up to the production limit:
                // a hundred thousand messages of about a kilobyte queued without a flush)
                let limit = if dir == Dir::OutPipeline {
                    if t.draw(64) == 63 {
                        [(20usize << 20) + 256 * 5, (33 << 20) + 256 * 129, PRODUCTION][t.draw(3)]
                    } else {
                        PIPE_LIMITS[t.draw(PIPE_LIMITS.len())]
                    }
                } else {
                    limit
                };
                let n = match t.draw(4) {
                    0 => 256 * (1 + t.draw(limit / 256 + 2)) + t.draw(7) - 3,
                    1 => limit + t.draw(7) - 3,
                    2 => t.draw(limit + 512),
                    _ => limit + 256 + t.draw(2000),
                };
                let warmup = t.draw(3);
                let kind = [0usize, 5][t.draw(2)];
                // one seeded run in three: pending receives are abandoned and started over (the
                // limit must hold for the frame, not per receive attempt)
                let cancel = match t.draw(6) {
                    0 => crate::world::CancelPlan::Prob(1, 2),
                    1 => crate::world::CancelPlan::EveryKth(1 + t.draw(4)),
                    _ => crate::world::CancelPlan::Never,
                };
                w.cancel = cancel;
                w.cfg = cfg;
                (Case { limit, dir, n: n.max(80), warmup, kind }, "seeded".to_string())
            }
        };
        let l = case.limit;
        verif_hooks::set_max_buffer_size(l);
        struct Reset;
        impl Drop for Reset {
            fn drop(&mut self) {
                verif_hooks::set_max_buffer_size(PRODUCTION);
            }
        }
        let _reset = Reset;
        if want_sample || world.borrow().want_sample {
            world.borrow_mut().scenario = Some(json!({"mode": mode, "limit": l, "direction": format!("{:?}", case.dir), "size": case.n, "warmup_frames": case.warmup}));
        }
        let n = case.n;
        match case.dir {
            Dir::InBurst => {
                // Each frame is far below the limit; only their sum is not.
                let (per, count) = if l == PRODUCTION { (case.n, case.warmup) } else { ((l / 3).max(90), 5) };
                let mut stream = Vec::new();
                let mut fr = Vec::new();
                for _ in 0..count {
                    let f = sized_frame(case.kind, per);
                    stream.extend_from_slice(&f);
                    stream.push(0);
                    fr.push(f);
                }
                // variant: the burst of small frames is followed, without a pause, by a frame that
                // never ends (more than the limit without a terminator)
                let runaway = l != PRODUCTION && case.warmup == 2;
                if runaway {
                    stream.extend(std::iter::repeat(b'R').take(l + 700));
                }
                let (rd, wr) = {
                    let mut w = world.borrow_mut();
                    let rd = w.scripted_pipe(&stream, true);
                    let wr = w.sink_pipe();
                    w.step_cap = 60 * (stream.len() as u64 / 8 + 500);
                    (rd, wr)
                };
                let results: Rc<RefCell<Vec<Res>>> = Rc::new(RefCell::new(Vec::new()));
                {
                    let mut conn = Connection::new(W::socket(world, rd, wr));
                    let mut ex = Exec::new();
                    let r2 = results.clone();
                    let kind = case.kind;
                    let world2 = world.clone();
                    let lens: Vec<usize> = fr.iter().map(|f| f.len() + 1).collect();
                    ex.spawn(async move {
                        for i in 0..count + runaway as usize {
                            let r = recv_retrying(&world2, &mut conn, kind).await;
                            if i < count && matches!(r, Res::Ok(_)) {
                                world2.borrow_mut().pipes[rd].consumed_by_app += lens[i];
                            }
                            r2.borrow_mut().push(r);
                        }
                    });
                    ex.run(world);
                }
                let got = results.borrow();
                for (i, f) in fr.iter().enumerate() {
                    let want = frames::ref_kind(f, case.kind);
                    match got.get(i) {
                        Some(r) if *r == want => {}
                        Some(Res::ErrOverflow) => {
                            return Err(("C17/small-frames-refused-when-burst-exceeds-limit".into(), format!("{count} pipelined frames of {} bytes each (limit {l}): receive {i} failed with BufferOverflow although every frame is below the limit", f.len())));
                        }
                        other => {
                            return Err(("C17/unexpected-result".into(), format!("burst frame {i}: expected {:?}, got {other:?}", short(&Some(want)))));
                        }
                    }
                }
                // the burst was accepted: then it must have been accepted without holding more than
                // the limit in memory, and the runaway frame behind it must be refused
                let peak = world.borrow().pipes[rd].max_unconsumed_plus_window;
                if peak > l + 256 {
                    return Err(("C17/memory-not-bounded".into(), format!("{count} pipelined frames of {} bytes each{} (limit {l}): at some transport read the reader held {peak} bytes that the application had not consumed yet (unconsumed bytes + the window offered to the read)", fr[0].len(), if runaway { " followed by an unterminated frame" } else { "" })));
                }
                if runaway {
                    match got.get(count) {
                        Some(Res::ErrOverflow) => {}
                        other => return Err(("C17/unterminated-stream-not-refused".into(), format!("{} bytes without terminator behind a burst of {count} small frames, limit {l}: expected BufferOverflow, got {:?}", l + 700, short(&other.cloned())))),
                    }
                }
                world.borrow_mut().stat("inbound_burst_accepted");
                Ok(world.borrow().scenario.clone())
            }
            Dir::InValid | Dir::InFiller => {
                // ---- inbound; every frame is its own burst (sent once the previous one was consumed)
                let mut segs: Vec<Vec<u8>> = Vec::new();
                let mut warm = Vec::new();
                for i in 0..case.warmup {
                    let f = sized_frame(case.kind, 100 + 150 * i);
                    let mut b = f.clone();
                    b.push(0);
                    segs.push(b);
                    warm.push(f);
                }
                // An oversize frame may be spelled so that what lies *behind* the limit is a decodable
                // message on its own: legal blanks in front of a small document (for half of the
                // frames that are big enough). Whatever a reader does after refusing the frame, it
                // must never hand out a piece of it as if it were a message.
                let embedded = sized_frame(case.kind, 90);
                let smuggle = case.dir == Dir::InValid && n >= l + embedded.len() + 10 && world.borrow_mut().tape.draw(2) == 1;
                // ... and the peer goes on with an ordinary frame afterwards
                let follow = sized_frame(case.kind, 130);
                let big: Vec<u8> = if case.dir == Dir::InValid {
                    let f = if smuggle {
                        world.borrow_mut().stat("oversize_frame_with_a_decodable_tail_behind_the_limit");
                        let mut f = vec![b' '; n - embedded.len()];
                        f.extend_from_slice(&embedded);
                        f
                    } else {
                        sized_frame(case.kind, n)
                    };
                    let mut b = f.clone();
                    b.push(0);
                    segs.push(b);
                    if n >= l {
                        let mut b = follow.clone();
                        b.push(0);
                        segs.push(b);
                    }
                    f
                } else {
                    // unterminated filler: never a NUL
                    let f = vec![b'A'; n];
                    segs.push(f.clone());
                    f
                };
                let n = big.len();
                let (rd, wr) = {
                    let mut w = world.borrow_mut();
                    let rd = w.new_pipe();
                    let wr = w.sink_pipe();
                    w.pipes[rd].close_when_done = true;
                    let total: usize = segs.iter().map(|s| s.len()).sum();
                    for (i, sgm) in segs.iter().enumerate() {
                        w.push_seg(rd, sgm, Some(Gate { pipe: wr, nuls: 0, counter: i as u64 }));
                    }
                    w.step_cap = 60 * (total as u64 / 8 + 500);
                    (rd, wr)
                };
                drop(segs);
                let results: Rc<RefCell<Vec<Res>>> = Rc::new(RefCell::new(Vec::new()));
                let after: Rc<RefCell<Vec<Res>>> = Rc::new(RefCell::new(Vec::new()));
                let read_at_result: Rc<RefCell<Vec<usize>>> = Rc::new(RefCell::new(Vec::new()));
                {
                    let mut conn = Connection::new(W::socket(world, rd, wr));
                    let mut ex = Exec::new();
                    let r2 = results.clone();
                    let af = after.clone();
                    let ra = read_at_result.clone();
                    let world2 = world.clone();
                    let kind = case.kind;
                    let count = case.warmup + 1;
                    let keep_going = case.dir == Dir::InValid;
                    ex.spawn(async move {
                        let mut last_overflow = false;
                        for _ in 0..count {
                            let r = recv_retrying(&world2, &mut conn, kind).await;
                            let mut w = world2.borrow_mut();
                            ra.borrow_mut().push(w.pipes[rd].total_read);
                            if matches!(r, Res::Ok(_)) {
                                // every frame is its own burst: all of it has been handed over
                                w.pipes[rd].consumed_by_app = w.pipes[rd].total_read;
                            }
                            last_overflow = r == Res::ErrOverflow;
                            r2.borrow_mut().push(r);
                            w.counter += 1;
                        }
                        if last_overflow && keep_going {
                            // an application that does not give up after the refusal
                            for _ in 0..4 {
                                let r = recv_retrying(&world2, &mut conn, kind).await;
                                af.borrow_mut().push(r);
                                world2.borrow_mut().counter += 1;
                            }
                        }
                    });
                    ex.run(world);
                }
                // After a refusal: errors of any kind, or - at most once - the frame the peer sent
                // *after* the refused one. Never anything else.
                {
                    let want_follow = frames::ref_kind(&follow, case.kind);
                    let mut seen_follow = false;
                    for (i, r) in after.borrow().iter().enumerate() {
                        if let Res::Ok(_) = r {
                            if *r != want_follow || seen_follow {
                                return Err((
                                    "C17/refused-frame-partly-delivered".into(),
                                    format!("inbound frame of {n} bytes refused with limit {l}{}; receive {} after the refusal returned {:?}, which is not the next frame the peer sent", if smuggle { " (blanks, then a small document behind the limit)" } else { "" }, i + 1, short(&Some(r.clone()))),
                                ));
                            }
                            seen_follow = true;
                        }
                    }
                    if !after.borrow().is_empty() {
                        world.borrow_mut().stat("receives_continued_after_an_inbound_refusal");
                    }
                }
                let got = results.borrow();
                for (i, f) in warm.iter().enumerate() {
                    let want = frames::ref_kind(f, case.kind);
                    if got.get(i) != Some(&want) {
                        return Err(("C17/small-frame-not-accepted".into(), format!("warm-up frame {i} of {} bytes (limit {l}): expected {want:?}, got {:?}", f.len(), got.get(i))));
                    }
                }
                let r = got.get(case.warmup).cloned();
                let consumed = read_at_result.borrow().get(case.warmup).copied().unwrap_or(0);
                let warm_bytes: usize = warm.iter().map(|f| f.len() + 1).sum();
                let burst = consumed.saturating_sub(warm_bytes);
                {
                    let mut w = world.borrow_mut();
                    if n + 1 == l {
                        w.stat("probe.size_exactly_limit_minus_one(dont_care)");
                    }
                    if (n + 1) % 256 == 0 {
                        w.stat("probe.frame_plus_terminator_ends_on_growth_step");
                    }
                }
                if case.dir == Dir::InValid {
                    let want = frames::ref_kind(&big, case.kind);
                    if n + 1 < l {
                        if r.as_ref() != Some(&want) {
                            return Err(("C17/frame-below-limit-refused".into(), format!("inbound frame of {n} bytes with limit {l}: expected it decoded, got {:?}", short(&r))));
                        }
                        world.borrow_mut().stat("inbound_accepted");
                    } else if n >= l {
                        if r != Some(Res::ErrOverflow) {
                            return Err(("C17/oversize-frame-not-refused".into(), format!("inbound frame of {n} bytes with limit {l}: expected BufferOverflow, got {:?}", short(&r))));
                        }
                        world.borrow_mut().stat("inbound_refused");
                    } else if r != Some(Res::ErrOverflow) && r.as_ref() != Some(&want) {
                        return Err(("C17/unexpected-result".into(), format!("inbound frame of {n} bytes with limit {l}: got {:?}", short(&r))));
                    }
                } else if n >= l {
                    if r != Some(Res::ErrOverflow) {
                        return Err(("C17/unterminated-stream-not-refused".into(), format!("{n} bytes without terminator, limit {l}: expected BufferOverflow, got {:?}", short(&r))));
                    }
                    world.borrow_mut().stat("inbound_unterminated_refused");
                } else if r != Some(Res::ErrEof) {
                    return Err(("C17/unexpected-result".into(), format!("{n} unterminated bytes then EOF, limit {l}: expected end-of-stream, got {:?}", short(&r))));
                }
                if r == Some(Res::ErrOverflow) && burst > l + 256 {
                    return Err(("C17/memory-not-bounded".into(), format!("overflow reported only after consuming {burst} bytes of one burst with limit {l}")));
                }
                let peak = world.borrow().pipes[rd].max_unconsumed_plus_window;
                if peak > l + 256 {
                    return Err(("C17/memory-not-bounded".into(), format!("inbound frame of {n} bytes, limit {l}: at some transport read the reader held {peak} bytes that the application had not consumed yet (unconsumed bytes + the window offered to the read)")));
                }
                Ok(world.borrow().scenario.clone())
            }
            Dir::OutPipeline => {
                let (rd, wr) = {
                    let mut w = world.borrow_mut();
                    let rd = w.scripted_pipe(&[], false);
                    let wr = w.sink_pipe();
                    w.step_cap = 10_000 + l as u64 / 64;
                    (rd, wr)
                };
                // message sizes: a base size (bigger for big limits, to keep the count in the
                // hundreds) varied per message by the tape
                let base = out_wire_len(0);
                let unit = if l > (4 << 20) { 1000 } else { (l / 150).clamp(40, 9000) };
                let sizes: Vec<usize> = {
                    let mut w = world.borrow_mut();
                    let mut v = Vec::new();
                    let mut total = 0usize;
                    while total <= l + 3 * unit && v.len() < if l > (4 << 20) { 400_000 } else { 4000 } {
                        let n = base + match w.tape.draw(4) {
                            0 => w.tape.draw(40),
                            1 => unit + w.tape.draw(7),
                            2 => w.tape.draw(2 * unit),
                            _ => 256 * (1 + w.tape.draw(unit / 256 + 1)) - base % 256 + w.tape.draw(5),
                        };
                        total += n + 1;
                        v.push(n);
                    }
                    v
                };
                let outcome: Rc<RefCell<Vec<(usize, String)>>> = Rc::new(RefCell::new(Vec::new()));
                let tail: Rc<RefCell<Vec<String>>> = Rc::new(RefCell::new(Vec::new()));
                {
                    let mut conn = Connection::new(W::socket(world, rd, wr));
                    let mut ex = Exec::new();
                    let (o2, t2, sizes2) = (outcome.clone(), tail.clone(), sizes.clone());
                    ex.spawn(async move {
                        for n in sizes2 {
                            let r = conn.enqueue_call(&out_call(n - base));
                            let name = res_name(&r);
                            o2.borrow_mut().push((n, name.clone()));
                            if name != "ok" {
                                break;
                            }
                        }
                        let r = conn.flush().await;
                        t2.borrow_mut().push(format!("flush:{}", res_name(&r)));
                        let r = conn.send_call(&out_call(5)).await;
                        t2.borrow_mut().push(format!("after:{}", res_name(&r)));
                    });
                    ex.run(world);
                }
                let o = outcome.borrow();
                let mut pending = 0usize;
                let mut accepted: Vec<usize> = Vec::new();
                for (i, (n, r)) in o.iter().enumerate() {
                    let total = pending + n + 1;
                    match r.as_str() {
                        "ok" => {
                            if total > l {
                                return Err(("C17/oversize-message-not-refused".into(), format!("message {i} of {n} bytes was accepted with {pending} bytes already pending: {total} bytes queued, limit {l}")));
                            }
                            pending = total;
                            accepted.push(*n);
                        }
                        "overflow" => {
                            if total < l {
                                return Err(("C17/message-below-limit-refused".into(), format!("message {i} of {n} bytes refused with {pending} bytes pending ({total} in all), limit {l}")));
                            }
                            world.borrow_mut().stat("outbound_pipeline_refused_at_limit");
                        }
                        other => return Err(("C17/unexpected-result".into(), format!("pipelined message {i}: {other}"))),
                    }
                }
                if o.last().map(|x| x.1 == "ok").unwrap_or(true) {
                    return Err(("C17/oversize-message-not-refused".into(), format!("{} messages totalling {pending} bytes were all accepted, limit {l}", o.len())));
                }
                let t = tail.borrow();
                if t.first().map(|s| s.as_str()) != Some("flush:ok") || t.get(1).map(|s| s.as_str()) != Some("after:ok") {
                    return Err(("C17/connection-unusable-after-refusal".into(), format!("after the refusal: {t:?} (limit {l}, {} messages accepted)", accepted.len())));
                }
                let w = world.borrow();
                let log = &w.pipes[wr].log;
                let frames: Vec<&[u8]> = if log.is_empty() { vec![] } else { log[..log.len() - 1].split(|b| *b == 0).collect() };
                let got: Vec<usize> = frames.iter().map(|f| f.len()).collect();
                let mut want = accepted.clone();
                want.push(out_wire_len(5));
                if got != want || log.last() != Some(&0) {
                    let first = got.iter().zip(want.iter()).position(|(a, b)| a != b).unwrap_or(got.len().min(want.len()));
                    return Err(("C17/wrong-bytes-after-refusal".into(), format!("transport received {} frames, expected {} (the accepted ones and the trailing one); first difference at frame {first}: {:?} vs {:?} (limit {l})", got.len(), want.len(), got.get(first), want.get(first))));
                }
                drop(w);
                if l > (1 << 20) {
                    world.borrow_mut().stat("probe.outbound_pipeline_beyond_1MiB");
                }
                Ok(world.borrow().scenario.clone())
            }
            Dir::OutEmpty | Dir::OutAfterSmall => {
                // ---- outbound
                let (rd, wr) = {
                    let mut w = world.borrow_mut();
                    let rd = w.scripted_pipe(&[], false);
                    let wr = w.sink_pipe();
                    w.step_cap = 10_000;
                    (rd, wr)
                };
                let base = out_wire_len(0);
                let textlen = n.saturating_sub(base);
                let n = base + textlen;
                let small_before = if case.dir == Dir::OutAfterSmall { 2 } else { 0 };
                let small_len = out_wire_len(5);
                let p = small_before * (small_len + 1);
                let total = p + n + 1;
                let outcome: Rc<RefCell<Vec<String>>> = Rc::new(RefCell::new(Vec::new()));
                {
                    let mut conn = Connection::new(W::socket(world, rd, wr));
                    let mut ex = Exec::new();
                    let o2 = outcome.clone();
                    ex.spawn(async move {
                        for _ in 0..small_before {
                            let r = conn.enqueue_call(&out_call(5));
                            o2.borrow_mut().push(format!("small:{}", res_name(&r)));
                        }
                        let r = conn.enqueue_call(&out_call(textlen));
                        o2.borrow_mut().push(format!("big:{}", res_name(&r)));
                        let r = conn.send_call(&out_call(5)).await;
                        o2.borrow_mut().push(format!("after:{}", res_name(&r)));
                    });
                    ex.run(world);
                }
                let o = outcome.borrow();
                let big = o.iter().find(|s| s.starts_with("big:")).cloned().unwrap_or_default();
                let after = o.iter().find(|s| s.starts_with("after:")).cloned().unwrap_or_default();
                if o.iter().any(|s| s.starts_with("small:") && s != "small:ok") {
                    return Err(("C17/small-message-refused".into(), format!("{o:?} with limit {l}")));
                }
                let accepted = big == "big:ok";
                if total < l && !accepted {
                    return Err(("C17/message-below-limit-refused".into(), format!("outbound message of {n} bytes after {p} pending bytes, limit {l}: {big}")));
                }
                if total > l && big != "big:overflow" {
                    return Err(("C17/oversize-message-not-refused".into(), format!("outbound message of {n} bytes after {p} pending bytes, limit {l}: {big}")));
                }
                if !(accepted || big == "big:overflow") {
                    return Err(("C17/unexpected-result".into(), format!("outbound {n} bytes, limit {l}: {big}")));
                }
                {
                    let mut w = world.borrow_mut();
                    w.stat(if accepted { "outbound_accepted" } else { "outbound_refused" });
                    if total == l {
                        w.stat("probe.size_exactly_limit_minus_one(dont_care)");
                    }
                }
                // what reached the transport: the small ones, the big one iff accepted, the trailing one
                let w = world.borrow();
                let log = &w.pipes[wr].log;
                let mut want: Vec<usize> = vec![small_len; small_before];
                if accepted {
                    want.push(n);
                }
                let trailing_fits = if accepted { total + small_len + 1 < l } else { p + small_len + 1 < l };
                if after == "after:ok" {
                    want.push(small_len);
                } else if trailing_fits {
                    return Err(("C17/connection-unusable-after-refusal".into(), format!("a small message after the {} one failed: {after} (limit {l})", if accepted { "accepted" } else { "refused" })));
                }
                let frames: Vec<&[u8]> = if log.is_empty() { vec![] } else { log[..log.len() - 1].split(|b| *b == 0).collect() };
                let got: Vec<usize> = frames.iter().map(|f| f.len()).collect();
                if after == "after:ok" && (got != want || frames.iter().any(|f| serde_json::from_slice::<Value>(f).is_err())) {
                    return Err(("C17/wrong-bytes-after-refusal".into(), format!("transport received frames of sizes {got:?}, expected {want:?} (limit {l}, big message {})", if accepted { "accepted" } else { "refused" })));
                }
                if after != "after:ok" && !log.is_empty() {
                    return Err(("C17/refused-message-sent-bytes".into(), format!("{} bytes reached the transport although the flush was refused", log.len())));
                }
                Ok(w.scenario.clone())
            }
        }
    }

    fn systematic(&self, tier: Tier) -> Vec<Vec<u32>> {
        let mut tapes = Vec::new();
        if tier == Tier::Thorough {
            tapes.push(vec![SYS_MODE, LIMITS.len() as u32, 63]);
            tapes.push(vec![SYS_MODE, LIMITS.len() as u32, 62]);
        }
        let lims: &[u32] = if tier == Tier::Quick { &[0, 2] } else { &[0, 1, 2, 3, 4] };
        for li in lims {
            let limit = LIMITS[*li as usize];
            for dir in 0..4u32 {
                for m in 0..(limit / 256 + 2) as u32 {
                    for d in 0..7u32 {
                        let styles: &[u32] = if dir < 2 { &[0, 1, 2] } else { &[0] };
                        for s in styles {
                            for k in 0..2u32 {
                                if dir >= 2 && k == 1 {
                                    continue;
                                }
                                tapes.push(vec![SYS_MODE, *li, dir, m, d, *s, k]);
                            }
                        }
                    }
                }
            }
        }
        tapes
    }

    fn random_runs(&self, tier: Tier) -> u64 {
        match tier {
            Tier::Quick => 20_000,
            Tier::Thorough => 400_000,
        }
    }

    fn rule(&self) -> String {
        "Each execution = one limit value L (hook-set: 1, 2, 4, 8, 16 or 64 KiB; thorough also a few runs at the production 100 MiB inbound), one direction (inbound valid frame / inbound unterminated filler / inbound burst of small frames / outbound message into an empty buffer / outbound after two small enqueued messages / outbound pipeline: hundreds of messages enqueued without a flush until one is refused, with limits up to 3 MiB that are not powers of two), one size n and one chunking. Systematic part: every n within +-3 of every multiple of 256 up to L+512, each direction, three chunkings inbound. Oracle: total < L => accepted (decoded value / exact frames on the transport); n >= L (total > L outbound) => Error::BufferOverflow, nothing of the refused message reaches the transport, a following small message goes out intact; total == L is a don't-care; on overflow the bytes consumed in that burst are <= L + 256. Non-trivial = partial delivery / short read / stall happened or the size is within 3 of a growth step; distinct = distinct event-sequence hash.".into()
    }

    fn components(&self) -> Value {
        json!({
            "real": ["ReadConnection::read_from_socket growth/overflow logic", "WriteConnection::{enqueue, grow_buffer, flush}", "json_ser retry-after-BufferTooSmall", "limit value: real comparison sites, hook-set value"],
            "stub": ["SimSocket (ours)", "executor"],
            "hook": "zlink_core::connection::verif_hooks::set_max_buffer_size (cfg zlink_verif)",
        })
    }

    fn assumptions(&self) -> Vec<String> {
        vec![
            "the statement does not say whether the terminator counts towards the limit; size == L-1 (total == L) is therefore accepted either way".into(),
            "hook-set limits are multiples of the 256-byte growth step, like the production value (the limit is enforced per growth step)".into(),
        ]
    }

    fn extra_evidence(&self, stats: &std::collections::BTreeMap<String, u64>) -> Value {
        json!({"production_limit_runs": stats.get("production_limit_run").copied().unwrap_or(0)})
    }
}

fn res_name(r: &zlink_core::Result<()>) -> String {
    match r {
        Ok(()) => "ok".into(),
        Err(zlink_core::Error::BufferOverflow) => "overflow".into(),
        Err(e) => format!("{e:?}"),
    }
}

fn short(r: &Option<Res>) -> String {
    match r {
        Some(Res::Ok(s)) if s.len() > 80 => format!("Ok({}…)", &s[..60]),
        other => format!("{other:?}"),
    }
}
