//! C18 over real sockets: the real `Server::run` on a real `zlink_smol::unix::Listener`, raw
//! client sockets driven by this thread. A flooder's burst is sitting in the server's receive
//! buffer; while the service handles one of its calls, a quiet client's complete call lands in the
//! kernel's socket buffer (the write is issued from inside `Service::handle`, because the server
//! does not return to its caller between calls it can serve without waiting). From then on no
//! other connection may be served twice before the quiet client is.
//!
//! Only the smol transport: its read path attempts the system call before it consults the
//! reactor, so "a complete call is waiting in the kernel" means the same to the monitor and to the
//! server. tokio caches readiness and only refreshes it when the I/O driver runs, which a
//! current-thread runtime does not do while the server task keeps finding buffered calls; whether
//! that counts against the statement is not settled by it, so it is not judged here.

use crate::{
    runner::Verdict,
    server_world::{call_frame, CallSpec, Handled, SimService},
    world::{Cfg, World},
};
use serde_json::json;
use std::{
    cell::RefCell,
    future::Future,
    io::Write,
    os::unix::net::UnixStream as StdUnixStream,
    path::PathBuf,
    rc::Rc,
    sync::atomic::{AtomicU64, Ordering},
    task::{Context, Poll, Waker},
};
use zlink_core::Server;

static DIR_COUNTER: AtomicU64 = AtomicU64::new(0);

struct TmpDir(PathBuf);

impl Drop for TmpDir {
    fn drop(&mut self) {
        let _ = std::fs::remove_dir_all(&self.0);
    }
}

struct Quiet {
    cid: u32,
    /// written while the service handles the k-th call overall (0-based)
    write_at_handled: usize,
    written_at: Option<u64>,
    handled_at: Option<u64>,
}

pub fn run(world: &World) -> Verdict {
    // ---- scenario
    let (flooders, quiets, order, mode) = {
        let mut w = world.borrow_mut();
        w.cfg = Cfg::plain();
        let t = &mut w.tape;
        let n_flood = 1 + t.draw(3);
        let flooders: Vec<(u32, usize)> = (0..n_flood).map(|i| (10 + i as u32, 4 + t.draw(40))).collect();
        let total: usize = flooders.iter().map(|f| f.1).sum();
        let n_quiet = 1 + t.draw(2);
        let quiets: Vec<(u32, usize)> = (0..n_quiet).map(|i| (50 + i as u32, t.draw(total.saturating_sub(2).max(1)))).collect();
        // connection order decides the slots in the server's connection list
        let mut order: Vec<u32> = flooders.iter().map(|f| f.0).chain(quiets.iter().map(|q| q.0)).collect();
        for i in (1..order.len()).rev() {
            let j = t.draw(i + 1);
            order.swap(i, j);
        }
        let mode = format!("real smol Unix sockets: flooders (cid, calls) {flooders:?}, quiet clients (cid, written while call #k is handled) {quiets:?}, connect order {order:?}");
        (flooders, quiets, order, mode)
    };
    {
        let mut w = world.borrow_mut();
        w.stat("real_socket_runs.smol");
        w.step_cap = 200_000;
        if w.want_sample {
            w.scenario = Some(json!({"mode": mode}));
        }
    }
    let dir = TmpDir(std::env::temp_dir().join(format!("zf{}-{}", std::process::id(), DIR_COUNTER.fetch_add(1, Ordering::Relaxed))));
    std::fs::create_dir_all(&dir.0).map_err(|e| ("HARNESS/panic".to_string(), format!("cannot create {:?}: {e}", dir.0)))?;
    let path = dir.0.join("s");
    let lis = zlink_smol::unix::bind(&path).map_err(|e| ("C18/listener-error".to_string(), format!("{e:?}")))?;

    // raw clients
    let mut socks: Vec<(u32, StdUnixStream)> = Vec::new();
    for cid in &order {
        let s = StdUnixStream::connect(&path).map_err(|e| ("HARNESS/panic".to_string(), format!("connect: {e}")))?;
        socks.push((*cid, s));
    }
    let socks = Rc::new(RefCell::new(socks));
    let log: Rc<RefCell<Vec<Handled>>> = Rc::new(RefCell::new(Vec::new()));
    let quiet_state: Rc<RefCell<Vec<Quiet>>> = Rc::new(RefCell::new(quiets.iter().map(|q| Quiet { cid: q.0, write_at_handled: q.1, written_at: None, handled_at: None }).collect()));
    let verdict: Rc<RefCell<Option<(String, String)>>> = Rc::new(RefCell::new(None));

    // what happens while the service handles a call
    let on_handle: Rc<dyn Fn(u32, u32, u64)> = {
        let (socks, log, quiet_state, verdict, world) = (socks.clone(), log.clone(), quiet_state.clone(), verdict.clone(), world.clone());
        let mode = mode.clone();
        Rc::new(move |cid: u32, _seq: u32, at: u64| {
            let n_handled = log.borrow().len() - 1; // this call is already in the log
            let mut qs = quiet_state.borrow_mut();
            // (1) the monitor: since a quiet client's call became readable, nobody is served twice
            for q in qs.iter_mut() {
                if q.cid == cid {
                    q.handled_at = Some(at);
                }
            }
            for q in qs.iter() {
                if let (Some(w_at), None) = (q.written_at, q.handled_at) {
                    let l = log.borrow();
                    let mut per: std::collections::BTreeMap<u32, u32> = Default::default();
                    for h in l.iter().filter(|h| h.at > w_at) {
                        *per.entry(h.cid).or_insert(0) += 1;
                    }
                    if let Some((c, n)) = per.iter().find(|(_, n)| **n >= 2) {
                        let mut v = verdict.borrow_mut();
                        if v.is_none() {
                            *v = Some((
                                "C18/two-calls-from-one-connection-while-another-waits".into(),
                                format!("over real smol sockets: client {} had its complete call in the kernel's socket buffer from event {w_at} on and has not been served; connection {c} has been served {n} calls since, with the set of connections unchanged ({mode})", q.cid),
                            ));
                        }
                    }
                }
            }
            // (2) the environment: quiet clients whose moment has come write their call
            for q in qs.iter_mut() {
                if q.written_at.is_none() && n_handled >= q.write_at_handled {
                    let frame = {
                        let mut f = call_frame(q.cid, 0, &CallSpec::Echo { pad: 3, oneway: false });
                        f.push(0);
                        f
                    };
                    let mut ss = socks.borrow_mut();
                    let s = &mut ss.iter_mut().find(|s| s.0 == q.cid).unwrap().1;
                    s.write_all(&frame).expect("small write to a fresh socket");
                    let mut w = world.borrow_mut();
                    w.ev("b.quiet_call_written", q.cid as u64, n_handled as u64);
                    q.written_at = Some(w.seq);
                }
            }
        })
    };

    let service: SimService = SimService::new(world.clone(), log.clone(), false, Some(on_handle));
    let server = Server::new(lis, service);
    let mut fut = Box::pin(server.run());
    let mut cx = Context::from_waker(Waker::noop());
    let mut poll_server = |world: &World| -> Result<(), (String, String)> {
        // (how many polls the server needs is not part of the history: with a transport that
        // waits for the reactor thread it depends on the wall clock; the order of service does not)
        world.borrow_mut().tick_at("server poll");
        match fut.as_mut().poll(&mut cx) {
            Poll::Pending => Ok(()),
            Poll::Ready(r) => Err(("C18/server-exited".into(), format!("Server::run returned {r:?}"))),
        }
    };
    // all connections are accepted before any traffic (the set stays unchanged afterwards)
    for _ in 0..3 {
        poll_server(world)?;
    }
    // the flooders' bursts
    for (cid, n) in &flooders {
        let mut burst = Vec::new();
        for seq in 0..*n {
            burst.extend_from_slice(&call_frame(*cid, seq as u32, &CallSpec::Echo { pad: seq % 7, oneway: false }));
            burst.push(0);
        }
        let mut ss = socks.borrow_mut();
        ss.iter_mut().find(|s| s.0 == *cid).unwrap().1.write_all(&burst).expect("burst fits the socket buffer");
        world.borrow_mut().ev("b.burst_written", *cid as u64, *n as u64);
    }
    let total: usize = flooders.iter().map(|f| f.1).sum::<usize>() + quiets.len();
    let mut polls = 0;
    while log.borrow().len() < total && verdict.borrow().is_none() && polls < 2_000 {
        let before = log.borrow().len();
        poll_server(world)?;
        polls += 1;
        if log.borrow().len() == before {
            // no progress: give a reactor thread (if the transport relies on one) a moment
            std::thread::sleep(std::time::Duration::from_micros(200));
        }
        // quiet clients that were to write after the very last flooder call
        if log.borrow().len() + quiets.len() >= total {
            let mut qs = quiet_state.borrow_mut();
            for q in qs.iter_mut().filter(|q| q.written_at.is_none()) {
                let mut f = call_frame(q.cid, 0, &CallSpec::Echo { pad: 3, oneway: false });
                f.push(0);
                socks.borrow_mut().iter_mut().find(|s| s.0 == q.cid).unwrap().1.write_all(&f).expect("small write");
                let mut w = world.borrow_mut();
                w.ev("b.quiet_call_written", q.cid as u64, u64::MAX);
                q.written_at = Some(w.seq);
            }
        }
    }
    drop(fut);
    if let Some(v) = verdict.borrow_mut().take() {
        return Err(v);
    }
    if log.borrow().len() < total {
        return Err(("C18/reply-missing-at-quiescence".into(), format!("over real smol sockets: only {} of {total} calls were handled after {polls} polls of the server ({mode})", log.borrow().len())));
    }
    {
        let mut w = world.borrow_mut();
        w.nontrivial = true;
        w.stat_add("fairness_intervals_checked", quiets.len() as u64);
    }
    Ok(world.borrow_mut().scenario.take())
}
