//! C19 — end to end: what one zlink connection sends is what the peer receives, intact, in order,
//! each frame at most once, also when sends are abandoned half-way.
//!
//! Tier A: `Connection<PSocket>` over a simulated bounded pipe with partial writes (exact, µs).
//! Tier B: the real `zlink_tokio::unix` / `zlink_smol::unix` transports on real kernel sockets,
//! every syscall issued from this one thread in an order the tape decides.

use crate::{
    exec::Exec,
    frames::ErrA,
    runner::{Prop, Tier, Verdict},
    tape::Tape,
    world::{CancelPlan, Cfg, PSocket, World},
};
use serde::{Deserialize, Serialize};
use serde_json::{json, Value};
use std::{
    borrow::Cow,
    cell::RefCell,
    collections::{BTreeMap, VecDeque},
    future::Future,
    io::{Read, Write},
    os::{
        fd::{AsRawFd, OwnedFd},
        unix::net::{UnixListener as StdUnixListener, UnixStream as StdUnixStream},
    },
    path::{Path, PathBuf},
    pin::Pin,
    rc::Rc,
    sync::atomic::{AtomicU64, Ordering},
    task::{Context, Poll, Waker},
};
use zlink_core::{
    connection::{socket::Socket, ReadConnection, WriteConnection},
    Call, Connection, Listener, Reply,
};

pub struct EndToEnd {
    pub thorough: bool,
}

// ---------------------------------------------------------------------------------------------
// Messages

#[derive(Debug, Serialize, Deserialize, PartialEq)]
#[serde(tag = "method", content = "parameters")]
enum Msg<'a> {
    #[serde(rename = "org.example.Msg")]
    Msg {
        conn: u32,
        dir: u32,
        seq: u32,
        #[serde(borrow)]
        pad: Cow<'a, str>,
    },
}

#[derive(Debug, Serialize, Deserialize, PartialEq)]
struct Rep<'a> {
    conn: u32,
    seq: u32,
    #[serde(borrow)]
    pad: Cow<'a, str>,
}

/// Position-dependent filler (a shifted copy never matches), no characters that need escaping.
fn pad(len: usize, salt: u64) -> String {
    const A: &[u8] = b"abcdefghijklmnopqrstuvwxyzABCDEFGHIJKLMNOPQRSTUVWXYZ0123456789";
    let mut s = String::with_capacity(len);
    let mut x = salt.wrapping_mul(0x9E37_79B9_7F4A_7C15) | 1;
    for _ in 0..len {
        x ^= x << 13;
        x ^= x >> 7;
        x ^= x << 17;
        s.push(A[(x % 62) as usize] as char);
    }
    s
}

fn salt(conn: u32, dir: u32, seq: u32) -> u64 {
    ((conn as u64) << 40) ^ ((dir as u64) << 32) ^ (seq as u64 + 1)
}

fn mk_call(conn: u32, dir: u32, seq: u32, len: usize) -> Call<Msg<'static>> {
    Call::new(Msg::Msg { conn, dir, seq, pad: Cow::Owned(pad(len, salt(conn, dir, seq))) })
}

fn frame_bytes(conn: u32, dir: u32, seq: u32, len: usize) -> Vec<u8> {
    serde_json::to_vec(&mk_call(conn, dir, seq, len)).unwrap()
}

// ---------------------------------------------------------------------------------------------
// Oracle for a raw peer byte stream after sends that may have been abandoned

#[derive(Clone, Copy, PartialEq, Debug)]
enum Outcome {
    Completed,
    Cancelled,
}

/// One operation of the sender: the frames it enqueued (indices into the frame list), followed by
/// one flush attempt that either completed or was abandoned while pending.
#[derive(Clone, Debug)]
struct OpRec {
    frames: Vec<usize>,
    outcome: Outcome,
}

pub const CLASS_RETRANSMIT: &str = "C19/retransmit-after-partial-write-cancel";

/// `Ok(())`: the stream consists of whole frames, each equal to a submitted message, in
/// submission order, each at most once, every completed send present.
fn check_peer_stream(frames: &[Vec<u8>], ops: &[OpRec], s: &[u8]) -> Result<(), (String, String)> {
    // --- 1. the property itself, by value
    let mut mandatory = vec![false; frames.len()];
    for op in ops {
        if op.outcome == Outcome::Completed {
            for f in &op.frames {
                mandatory[*f] = true;
            }
        }
    }
    let by_value = || -> Result<(), String> {
        if s.is_empty() {
            return match mandatory.iter().position(|m| *m) {
                Some(j) => Err(format!("nothing arrived although the send of frame {j} completed")),
                None => Ok(()),
            };
        }
        if *s.last().unwrap() != 0 {
            return Err("the stream ends in the middle of a frame".into());
        }
        let mut next = 0usize;
        for (n, piece) in s[..s.len() - 1].split(|b| *b == 0).enumerate() {
            let got: Value = serde_json::from_slice(piece)
                .map_err(|e| format!("piece {n} ({} bytes) is not one JSON document: {e}", piece.len()))?;
            let mut j = next;
            loop {
                if j >= frames.len() {
                    return Err(format!(
                        "piece {n} ({} bytes, starts {:?}) is not the next submitted frame (next expected: {next}); it is a duplicate, out of order or foreign",
                        piece.len(),
                        String::from_utf8_lossy(&piece[..piece.len().min(60)])
                    ));
                }
                let want: Value = serde_json::from_slice(&frames[j]).unwrap();
                if want == got {
                    break;
                }
                if mandatory[j] {
                    return Err(format!(
                        "piece {n} ({} bytes, starts {:?}) arrived where frame {j} (its send completed) was due",
                        piece.len(),
                        String::from_utf8_lossy(&piece[..piece.len().min(60)])
                    ));
                }
                j += 1;
            }
            next = j + 1;
        }
        if let Some(j) = (next..frames.len()).find(|j| mandatory[*j]) {
            return Err(format!("frame {j} never arrived although its send completed"));
        }
        Ok(())
    };
    let why = match by_value() {
        Ok(()) => return Ok(()),
        Err(why) => why,
    };

    // --- 2. is it exactly the recorded defect? Generative model of the current write path: the
    // connection keeps everything accepted since the last completed flush; a completed flush
    // writes all of it from the start; an abandoned flush has written some proper prefix of it.
    fn parse(
        frames: &[Vec<u8>],
        ops: &[OpRec],
        s: &[u8],
        i: usize,
        pos: usize,
        mut pending: Vec<u8>,
        restarted: bool,
    ) -> Option<bool> {
        if i == ops.len() {
            return if pos == s.len() { Some(restarted) } else { None };
        }
        for f in &ops[i].frames {
            pending.extend_from_slice(&frames[*f]);
            pending.push(0);
        }
        match ops[i].outcome {
            Outcome::Completed => {
                if s[pos..].starts_with(&pending) {
                    parse(frames, ops, s, i + 1, pos + pending.len(), Vec::new(), restarted)
                } else {
                    None
                }
            }
            Outcome::Cancelled => {
                if pending.is_empty() {
                    return parse(frames, ops, s, i + 1, pos, pending, restarted);
                }
                let lcp = s[pos..].iter().zip(pending.iter()).take_while(|(a, b)| a == b).count();
                let max_p = lcp.min(pending.len() - 1);
                for p in 0..=max_p {
                    // what follows is either the end of the stream or a write that starts at the
                    // beginning of the buffer again
                    let nxt = s.get(pos + p);
                    if !(nxt.is_none() || nxt == Some(&pending[0])) {
                        continue;
                    }
                    if let Some(r) = parse(frames, ops, s, i + 1, pos + p, pending.clone(), restarted || p > 0) {
                        return Some(r);
                    }
                }
                None
            }
        }
    }
    match parse(frames, ops, s, 0, 0, Vec::new(), false) {
        Some(true) => Err((
            CLASS_RETRANSMIT.to_string(),
            format!("{why}; the stream is exactly: bytes already written by an abandoned send, then the whole buffer again from its start"),
        )),
        _ => Err(("C19/peer-stream-corrupt".to_string(), why)),
    }
}

// ---------------------------------------------------------------------------------------------
// Sender plans (shared by both tiers)

#[derive(Clone, Debug)]
enum SendOp {
    Send(usize),
    Batch(Vec<usize>),
}

impl SendOp {
    fn lens(&self) -> Vec<usize> {
        match self {
            SendOp::Send(l) => vec![*l],
            SendOp::Batch(v) => v.clone(),
        }
    }
}

fn describe_ops(ops: &[SendOp]) -> Value {
    json!(ops
        .iter()
        .map(|o| match o {
            SendOp::Send(l) => format!("send_call(pad {l})"),
            SendOp::Batch(v) => format!("enqueue_call x{} (pads {v:?}) + flush", v.len()),
        })
        .collect::<Vec<_>>())
}

/// Poll `fut`; at each `Pending` this sender's own plan may abandon it (several senders with
/// different plans share one world in tier B, so the world-wide plan of `cancellable` is not used).
async fn abandonable<F: Future>(world: &World, fut: F, plan: &CancelPlan, pending_polls: &mut u64) -> Option<F::Output> {
    let mut fut = std::pin::pin!(fut);
    std::future::poll_fn(|cx| match fut.as_mut().poll(cx) {
        Poll::Ready(v) => Poll::Ready(Some(v)),
        Poll::Pending => {
            *pending_polls += 1;
            let mut w = world.borrow_mut();
            let c = match plan {
                CancelPlan::Never => false,
                CancelPlan::Prob(n, d) => w.tape.chance(*n, *d),
                CancelPlan::EveryKth(k) => *pending_polls % (*k as u64) == 0,
            };
            if c {
                w.cancels += 1;
                w.nontrivial = true;
                w.stat("fault.cancel_future_at_pending_poll");
                w.ev("cancel", *pending_polls, 0);
                Poll::Ready(None)
            } else {
                Poll::Pending
            }
        }
    })
    .await
}

/// Runs the sender side and records, per operation, whether its flush completed or was abandoned.
/// The final flush is never abandoned.
async fn run_sender<Wh: zlink_core::connection::socket::WriteHalf>(
    world: &World,
    wc: &mut WriteConnection<Wh>,
    conn: u32,
    dir: u32,
    ops: &[SendOp],
    plan: CancelPlan,
    recs: &RefCell<Vec<OpRec>>,
    fail: &RefCell<Option<(String, String)>>,
) {
    let mut seq = 0u32;
    let mut pending_polls = 0u64;
    for op in ops {
        let mut idx = Vec::new();
        let res = match op {
            SendOp::Send(l) => {
                let call = mk_call(conn, dir, seq, *l);
                idx.push(seq as usize);
                seq += 1;
                abandonable(world, wc.send_call(&call), &plan, &mut pending_polls).await
            }
            SendOp::Batch(v) => {
                let mut err = None;
                for l in v {
                    let call = mk_call(conn, dir, seq, *l);
                    idx.push(seq as usize);
                    seq += 1;
                    if let Err(e) = wc.enqueue_call(&call) {
                        err = Some(e);
                        break;
                    }
                }
                match err {
                    Some(e) => Some(Err(e)),
                    None => abandonable(world, wc.flush(), &plan, &mut pending_polls).await,
                }
            }
        };
        match res {
            Some(Ok(())) => recs.borrow_mut().push(OpRec { frames: idx, outcome: Outcome::Completed }),
            None => recs.borrow_mut().push(OpRec { frames: idx, outcome: Outcome::Cancelled }),
            Some(Err(e)) => {
                fail.borrow_mut().get_or_insert(("C19/send-error".into(), format!("send of frame(s) {idx:?} failed: {e:?}")));
                return;
            }
        }
    }
    match wc.flush().await {
        Ok(()) => recs.borrow_mut().push(OpRec { frames: vec![], outcome: Outcome::Completed }),
        Err(e) => {
            fail.borrow_mut().get_or_insert(("C19/send-error".into(), format!("final flush failed: {e:?}")));
        }
    }
}

// ---------------------------------------------------------------------------------------------
// Tier A

fn gen_len_a(t: &mut Tape, cap: usize) -> usize {
    match t.draw(6) {
        0 => t.draw(8),
        1 => cap.saturating_sub(60) + t.draw(8),
        2 => cap + t.draw(cap + 1),
        3 => 2 * cap + t.draw(300),
        4 => t.draw(700),
        _ => t.draw(40),
    }
}

fn gen_ops_a(t: &mut Tape, cap: usize) -> Vec<SendOp> {
    let n = 1 + t.draw(7);
    (0..n)
        .map(|_| {
            if t.draw(4) == 3 {
                SendOp::Batch((0..1 + t.draw(3)).map(|_| gen_len_a(t, cap)).collect())
            } else {
                SendOp::Send(gen_len_a(t, cap))
            }
        })
        .collect()
}

fn run_tier_a(world: &World) -> Verdict {
    let (ops, cap, plan) = {
        let mut w = world.borrow_mut();
        w.cfg = Cfg::swarm(&mut w.tape);
        // the peer drains only when everything else is parked in a third of the runs
        if w.tape.draw(3) == 0 {
            w.cfg.bias = 3;
        }
        let cap = [16usize, 61, 100, 256, 300, 1024, 4096][w.tape.draw(7)];
        let ops = gen_ops_a(&mut w.tape, cap);
        let plan = match w.tape.draw(4) {
            0 => CancelPlan::Never,
            1 => CancelPlan::Prob(1, 2),
            2 => CancelPlan::Prob(1, 6),
            _ => CancelPlan::EveryKth(1 + w.tape.draw(4)),
        };
        w.step_cap = 400_000;
        if w.want_sample {
            w.scenario = Some(json!({"tier": "A (simulated bounded pipe)", "pipe_capacity": cap, "cancel": format!("{plan:?}"), "cfg": format!("{:?}", w.cfg), "ops": describe_ops(&ops)}));
        }
        w.stat("tier.A_runs");
        (ops, cap, plan)
    };
    let (rd, wr) = {
        let mut w = world.borrow_mut();
        let rd = w.scripted_pipe(&[], false);
        let wr = w.sink_pipe();
        w.pipes[wr].cap = Some(cap);
        (rd, wr)
    };
    let recs = RefCell::new(Vec::new());
    let fail = RefCell::new(None);
    {
        let conn = Connection::new(PSocket { world: world.clone(), rd, wr });
        let (_r, mut wc) = conn.split();
        let mut ex = Exec::new();
        let (recs, fail, ops) = (&recs, &fail, &ops);
        ex.spawn(async move {
            run_sender(world, &mut wc, 0, 0, ops, plan, recs, fail).await;
        });
        ex.run(world);
        if !ex.is_done(0) && fail.borrow().is_none() {
            return Err(("C19/no-progress".into(), "sender did not finish although the peer drained everything".into()));
        }
    }
    if let Some(f) = fail.into_inner() {
        return Err(f);
    }
    let mut frames = Vec::new();
    for op in &ops {
        for l in op.lens() {
            frames.push(frame_bytes(0, 0, frames.len() as u32, l));
        }
    }
    let recs = recs.into_inner();
    let mut w = world.borrow_mut();
    if recs.iter().any(|r| r.outcome == Outcome::Cancelled) {
        w.stat("runs.with_abandoned_send");
    }
    let stream = std::mem::take(&mut w.pipes[wr].log);
    w.stat_add("frames.submitted", frames.len() as u64);
    drop(w);
    check_peer_stream(&frames, &recs, &stream)?;
    Ok(world.borrow_mut().scenario.take())
}

// ---------------------------------------------------------------------------------------------
// Tier B: real sockets

type LocalFut<T> = Pin<Box<dyn Future<Output = T>>>;

trait Backend: 'static {
    type Sock: Socket + std::fmt::Debug + 'static;
    type Lis: Listener<Socket = Self::Sock> + 'static;
    const NAME: &'static str;
    fn wrap(s: StdUnixStream) -> Self::Sock;
    fn bind(path: &Path) -> zlink_core::Result<Self::Lis>;
    fn from_fd(fd: OwnedFd) -> zlink_core::Result<Self::Lis>;
    fn connect(path: PathBuf) -> LocalFut<zlink_core::Result<Connection<Self::Sock>>>;
    /// Let the runtime's I/O driver observe the kernel state (tokio caches readiness).
    fn turn() -> impl Future<Output = ()>;
    /// async-io's `connect` issues its syscalls in the first poll and then only waits for the
    /// reactor thread's writability notice (no syscall is re-attempted), so *how many* polls it
    /// takes is wall-clock dependent while the kernel-visible effect is not. For such a backend the
    /// connector is polled until the connection is there, as one step.
    const SPIN_CONNECT: bool;
}

struct TokioB;

impl Backend for TokioB {
    type Sock = zlink_tokio::unix::Stream;
    type Lis = zlink_tokio::unix::Listener;
    const NAME: &'static str = "tokio";
    fn wrap(s: StdUnixStream) -> Self::Sock {
        s.set_nonblocking(true).unwrap();
        tokio::net::UnixStream::from_std(s).unwrap().into()
    }
    fn bind(path: &Path) -> zlink_core::Result<Self::Lis> {
        zlink_tokio::unix::bind(path)
    }
    fn from_fd(fd: OwnedFd) -> zlink_core::Result<Self::Lis> {
        zlink_tokio::unix::Listener::try_from(fd)
    }
    fn connect(path: PathBuf) -> LocalFut<zlink_core::Result<Connection<Self::Sock>>> {
        Box::pin(async move { zlink_tokio::unix::connect(&path).await })
    }
    fn turn() -> impl Future<Output = ()> {
        tokio::task::yield_now()
    }
    const SPIN_CONNECT: bool = false;
}

struct SmolB;

impl Backend for SmolB {
    type Sock = zlink_smol::unix::Stream;
    type Lis = zlink_smol::unix::Listener;
    const NAME: &'static str = "smol";
    fn wrap(s: StdUnixStream) -> Self::Sock {
        async_io::Async::new(s).unwrap().into()
    }
    fn bind(path: &Path) -> zlink_core::Result<Self::Lis> {
        zlink_smol::unix::bind(path)
    }
    fn from_fd(fd: OwnedFd) -> zlink_core::Result<Self::Lis> {
        zlink_smol::unix::Listener::try_from(fd)
    }
    fn connect(path: PathBuf) -> LocalFut<zlink_core::Result<Connection<Self::Sock>>> {
        Box::pin(async move { zlink_smol::unix::connect(&path).await })
    }
    fn turn() -> impl Future<Output = ()> {
        std::future::ready(())
    }
    const SPIN_CONNECT: bool = true;
}

#[derive(Clone, Copy, Debug, PartialEq)]
enum How {
    Pair,
    Bound,
    Inherited,
}

#[derive(Clone, Debug)]
enum Style {
    /// Split halves, both directions at once; `close_first` = which end is dropped first (the
    /// other end's reader must then see end-of-stream after its last message).
    Duplex { a2b: Vec<SendOp>, b2a: Vec<SendOp>, close_first: usize, recv_cancel: CancelPlan },
    /// Unsplit connections, strict alternation: call (size, …) answered by reply (…, size).
    PingPong { rounds: Vec<(usize, usize)> },
    /// A zlink sender whose sends are abandoned at pending polls; the peer is a raw descriptor.
    CancelRaw { ops: Vec<SendOp>, plan: CancelPlan },
    /// End B first sends a few small messages that end A never reads; A then sends `a2b` and goes
    /// away at once (both halves dropped, unread data in its queue: the kernel resets the
    /// connection). B must still receive every message A sent before it sees the failure.
    SendThenVanish { a2b: Vec<SendOp>, junk: Vec<usize> },
    /// The peer (a raw descriptor) sends `inbound` small messages, closes its *sending* direction
    /// only (`shutdown(SHUT_WR)`) and keeps reading. The zlink end receives them, is told that the
    /// stream has ended, and then sends `ops`: all of it must still reach the peer.
    HalfClose { inbound: Vec<usize>, ops: Vec<SendOp>, split: bool },
}

#[derive(Clone, Debug)]
struct ConnPlan {
    how: How,
    sndbuf: Option<usize>,
    style: Style,
}

#[derive(Clone, Debug)]
struct Plan {
    conns: Vec<ConnPlan>,
    /// weights: setup, sender, receiver, raw reader
    weights: [usize; 4],
    total_bytes: usize,
    /// The inherited listening descriptor is bound in the Linux abstract namespace (no path in the
    /// file system), as socket-activated services often are.
    abstract_inherited: bool,
}

/// `budget` = (payload bytes left for this run, messages over 60 kB left for this run): the writer
/// re-serialises a message from scratch for every 256-byte growth step of its buffer, so the first
/// big message on a connection costs O(n^2 / 256).
fn gen_len_b(t: &mut Tape, class: usize, sndbuf: usize, budget: &mut (usize, usize), max_len: usize) -> usize {
    let l = match class {
        0 => t.draw(200),
        1 => t.draw(4096),
        2 => sndbuf / 2 + t.draw(sndbuf * 3),
        3 => 60_000 + t.draw(max_len.saturating_sub(60_000).max(1)),
        _ => match t.draw(4) {
            0 => t.draw(64),
            1 => t.draw(3000),
            2 => sndbuf / 2 + t.draw(sndbuf * 2),
            _ => t.draw(40_000),
        },
    };
    let mut l = l.min(max_len).min(budget.0);
    if l > 60_000 {
        if budget.1 == 0 {
            l = 20_000 + l % 40_000;
        } else {
            budget.1 -= 1;
        }
    }
    budget.0 -= l;
    l
}

fn gen_ops_b(t: &mut Tape, n_max: usize, class: usize, sndbuf: usize, budget: &mut (usize, usize), max_len: usize, allow_empty: bool) -> Vec<SendOp> {
    let n = if allow_empty { t.draw(n_max + 1) } else { 1 + t.draw(n_max) };
    (0..n)
        .map(|_| {
            if t.draw(4) == 3 {
                SendOp::Batch((0..1 + t.draw(3)).map(|_| gen_len_b(t, class, sndbuf, budget, max_len)).collect())
            } else {
                SendOp::Send(gen_len_b(t, class, sndbuf, budget, max_len))
            }
        })
        .collect()
}

fn gen_plan(t: &mut Tape, thorough: bool) -> Plan {
    let n = match t.draw(8) {
        0..=3 => 1,
        4 | 5 => 2,
        6 => 3 + t.draw(2),
        _ => 2 + t.draw(7),
    };
    let mut budget = if thorough { (6usize << 20, 6usize) } else { (3usize << 19, 1 + t.draw(2)) };
    let start_budget = budget.0;
    let max_len = if thorough { 1 << 20 } else { 300_000 };
    let mut conns = Vec::new();
    for _ in 0..n {
        let how = match t.draw(4) {
            0 | 1 => How::Pair,
            2 => How::Bound,
            _ => How::Inherited,
        };
        let sndbuf = if how == How::Pair { [None, Some(4096), Some(16_384), Some(65_536)][t.draw(4)] } else { None };
        let sb = sndbuf.unwrap_or(212_992);
        // size class: mostly small; large ones are rare because the writer re-serialises from
        // scratch for every 256-byte growth step
        let class = match t.draw(16) {
            0..=3 => 0,
            4..=7 => 1,
            8..=10 => 2,
            11 => 3,
            _ => 4,
        };
        let class = if class == 2 && sndbuf.is_none() && !thorough && t.draw(4) != 0 { 4 } else { class };
        let n_max = if class >= 2 { 4 } else { 10 };
        let style = match (t.draw(8), how) {
            (0..=2, How::Pair) => {
                let plan = match t.draw(3) {
                    0 => CancelPlan::Prob(1, 2),
                    1 => CancelPlan::Prob(1, 8),
                    _ => CancelPlan::EveryKth(1 + t.draw(3)),
                };
                Style::CancelRaw { ops: gen_ops_b(t, n_max, class, sb, &mut budget, max_len, false), plan }
            }
            (5, How::Pair) => Style::HalfClose {
                inbound: (0..t.draw(4)).map(|_| t.draw(600)).collect(),
                ops: gen_ops_b(t, n_max, class, sb, &mut budget, max_len, false),
                split: t.draw(2) == 1,
            },
            (4, _) => Style::SendThenVanish {
                a2b: gen_ops_b(t, n_max, class, sb, &mut budget, max_len, false),
                junk: (0..1 + t.draw(3)).map(|_| t.draw(200)).collect(),
            },
            (3, _) => {
                let r = 1 + t.draw(4);
                Style::PingPong {
                    rounds: (0..r)
                        .map(|_| (gen_len_b(t, class, sb, &mut budget, max_len), gen_len_b(t, class.min(2), sb, &mut budget, max_len)))
                        .collect(),
                }
            }
            _ => {
                let a2b = gen_ops_b(t, n_max, class, sb, &mut budget, max_len, true);
                let back = if t.draw(2) == 0 { class } else { 0 };
                let b2a = gen_ops_b(t, n_max, back, sb, &mut budget, max_len, true);
                // receivers may abandon a pending receive and start over (cancel safety of receive
                // is C07's subject; here it runs over the real transports and with big messages)
                let recv_cancel = match t.draw(6) {
                    0 => CancelPlan::Prob(1, 3),
                    1 => CancelPlan::EveryKth(1 + t.draw(3)),
                    _ => CancelPlan::Never,
                };
                Style::Duplex { a2b, b2a, close_first: t.draw(2), recv_cancel }
            }
        };
        conns.push(ConnPlan { how, sndbuf, style });
    }
    let weights = match t.draw(4) {
        0 => [2, 2, 2, 1],
        1 => [1, 8, 1, 1], // writer-fast
        2 => [1, 1, 8, 2], // reader-fast
        _ => [4, 1 + t.draw(6), 1 + t.draw(6), 1],
    };
    let abstract_inherited = t.draw(3) == 2;
    Plan { conns, weights, total_bytes: start_budget - budget.0, abstract_inherited }
}

fn describe_plan(p: &Plan, rt: &str) -> Value {
    json!({
        "tier": format!("B (real Unix sockets, {rt})"),
        "weights_setup_sender_receiver_raw": p.weights,
        "payload_bytes": p.total_bytes,
        "connections": p.conns.iter().map(|c| json!({
            "made_by": format!("{:?}", c.how),
            "so_sndbuf": c.sndbuf,
            "style": match &c.style {
                Style::Duplex { a2b, b2a, close_first, recv_cancel } => json!({"duplex": {"a_to_b": describe_ops(a2b), "b_to_a": describe_ops(b2a), "closes_first": if *close_first == 0 { "a" } else { "b" }, "receivers_abandon_pending_receives": format!("{recv_cancel:?}")}}),
                Style::PingPong { rounds } => json!({"ping_pong_call_reply_pads": rounds}),
                Style::CancelRaw { ops, plan } => json!({"abandoned_sends_vs_raw_peer": {"ops": describe_ops(ops), "cancel": format!("{plan:?}")}}),
                Style::SendThenVanish { a2b, junk } => json!({"sender_vanishes_with_unread_data": {"a_to_b": describe_ops(a2b), "unread_b_to_a_pads": junk}}),
                Style::HalfClose { inbound, ops, split } => json!({"peer_half_closes_and_keeps_reading": {"peer_sends_first_pads": inbound, "then_zlink_end_sends": describe_ops(ops), "halves_split_from_the_start": split}}),
            }
        })).collect::<Vec<_>>()
    })
}

fn set_sndbuf(s: &StdUnixStream, v: usize) {
    let val: libc::c_int = v as libc::c_int;
    // SAFETY: plain setsockopt on a descriptor we own.
    unsafe {
        libc::setsockopt(
            s.as_raw_fd(),
            libc::SOL_SOCKET,
            libc::SO_SNDBUF,
            &val as *const _ as *const libc::c_void,
            std::mem::size_of::<libc::c_int>() as libc::socklen_t,
        );
    }
}

struct RawReader {
    sock: StdUnixStream,
    log: Rc<RefCell<Vec<u8>>>,
}

enum ActKind {
    Fut(LocalFut<()>),
    Raw(RawReader),
}

struct Act {
    kind: Option<ActKind>,
    class: usize,
    tag: u64,
}

struct Shared<S: Socket> {
    fail: RefCell<Option<(String, String)>>,
    ids: RefCell<Vec<usize>>,
    accepted: RefCell<[VecDeque<Connection<S>>; 2]>,
    connected: RefCell<[VecDeque<Connection<S>>; 2]>,
    /// per connection, per end: how many of that end's two halves have been dropped
    parts_dropped: RefCell<Vec<[u8; 2]>>,
    new_acts: RefCell<Vec<Act>>,
    cancel_results: RefCell<Vec<(usize, Vec<SendOp>, Rc<RefCell<Vec<OpRec>>>, Rc<RefCell<Vec<u8>>>)>>,
}

impl<S: Socket> Shared<S> {
    fn fail(&self, class: &str, msg: String) {
        self.fail.borrow_mut().get_or_insert((class.to_string(), msg));
    }
}

static DIR_COUNTER: AtomicU64 = AtomicU64::new(0);

struct TmpDir(PathBuf);

impl Drop for TmpDir {
    fn drop(&mut self) {
        let _ = std::fs::remove_dir_all(&self.0);
    }
}

async fn receiver<Rh: zlink_core::connection::socket::ReadHalf>(
    world: World,
    mut rc: ReadConnection<Rh>,
    conn: u32,
    dir: u32,
    lens: Vec<usize>,
    expect_eof_after: Option<Rc<dyn Fn() -> bool>>,
    fail: Rc<dyn Fn(&str, String)>,
    plan: CancelPlan,
) {
    let mut pending_polls = 0u64;
    for (seq, len) in lens.iter().enumerate() {
        let res = loop {
            match abandonable(&world, rc.receive_call::<Msg<'_>>(), &plan, &mut pending_polls).await {
                Some(r) => break r.map(|call| {
                    let Msg::Msg { conn: c, dir: d, seq: s, pad: p } = call.method();
                    (*c, *d, *s, p.len(), **p == *pad(*len, salt(conn, dir, seq as u32)), call.oneway() || call.more())
                }),
                None => {
                    world.borrow_mut().stat("fault.receive_abandoned_and_restarted");
                    // the new receive starts at a later poll (a timeout fired, the caller came back)
                    let mut yielded = false;
                    std::future::poll_fn(|_| {
                        if yielded {
                            Poll::Ready(())
                        } else {
                            yielded = true;
                            Poll::Pending
                        }
                    })
                    .await;
                }
            }
        };
        match res {
            Ok((c, d, s, plen, same, flagged)) => {
                let ok = c == conn && d == dir && s == seq as u32 && plen == *len && same;
                world.borrow_mut().ev("b.recv", (conn as u64) * 2 + dir as u64, seq as u64);
                if !ok || flagged {
                    fail(
                        "C19/received-sequence-differs",
                        format!("connection {conn} direction {dir}: message {seq} (pad {len}) arrived as conn={c} dir={d} seq={s} pad-length={plen}{}", if plen == *len { " with different content" } else { "" }),
                    );
                    return;
                }
            }
            Err(e) => {
                fail("C19/receive-error", format!("connection {conn} direction {dir}: receiving message {seq} of {} failed: {e:?}", lens.len()));
                return;
            }
        }
    }
    if let Some(ready) = expect_eof_after {
        std::future::poll_fn(|_| if ready() { Poll::Ready(()) } else { Poll::Pending }).await;
        match rc.receive_call::<Msg<'_>>().await {
            Err(zlink_core::Error::UnexpectedEof) => {
                world.borrow_mut().stat("probe.end_of_stream_after_peer_closed");
            }
            other => fail(
                "C19/no-end-of-stream-after-close",
                format!("connection {conn} direction {dir}: after all {} messages and the peer's close, receive returned {:?}", lens.len(), other.map(|c| format!("{:?}", c).chars().take(80).collect::<String>())),
            ),
        }
    }
}

fn lens_of(ops: &[SendOp]) -> Vec<usize> {
    ops.iter().flat_map(|o| o.lens()).collect()
}

fn spawn_conn<B: Backend>(world: &World, sh: &Rc<Shared<B::Sock>>, k: usize, cp: &ConnPlan, a: Connection<B::Sock>, b: Option<Connection<B::Sock>>, raw: Option<StdUnixStream>) {
    let conn = k as u32;
    sh.ids.borrow_mut().push(a.id());
    if let Some(b) = &b {
        sh.ids.borrow_mut().push(b.id());
    }
    let failer = |sh: &Rc<Shared<B::Sock>>| -> Rc<dyn Fn(&str, String)> {
        let sh = sh.clone();
        Rc::new(move |c: &str, m: String| sh.fail(c, m))
    };
    let mut acts = Vec::new();
    match &cp.style {
        Style::Duplex { a2b, b2a, close_first, recv_cancel } => {
            let b = b.unwrap();
            let (ar, aw) = a.split();
            let (br, bw) = b.split();
            let cf = *close_first;
            for (end, wc, ops, dir) in [(0usize, aw, a2b.clone(), 0u32), (1usize, bw, b2a.clone(), 1u32)] {
                let (world, sh) = (world.clone(), sh.clone());
                let mut wc = wc;
                acts.push(Act {
                    class: 1,
                    tag: (k as u64) * 8 + dir as u64,
                    kind: Some(ActKind::Fut(Box::pin(async move {
                        let recs = RefCell::new(Vec::new());
                        let fl = RefCell::new(None);
                        run_sender(&world, &mut wc, conn, dir, &ops, CancelPlan::Never, &recs, &fl).await;
                        if let Some((c, m)) = fl.into_inner() {
                            sh.fail(&c, format!("connection {conn} direction {dir}: {m}"));
                        }
                        drop(wc);
                        sh.parts_dropped.borrow_mut()[k][end] += 1;
                    }))),
                });
            }
            for (end, rc, ops, dir) in [(1usize, br, a2b.clone(), 0u32), (0usize, ar, b2a.clone(), 1u32)] {
                let (world, sh2) = (world.clone(), sh.clone());
                // the end that closes second checks for end-of-stream once the other end is gone
                let eof: Option<Rc<dyn Fn() -> bool>> = if end != cf {
                    let sh3 = sh.clone();
                    Some(Rc::new(move || sh3.parts_dropped.borrow()[k][cf] == 2))
                } else {
                    None
                };
                let f = failer(sh);
                let plan = recv_cancel.clone();
                acts.push(Act {
                    class: 2,
                    tag: (k as u64) * 8 + 2 + dir as u64,
                    kind: Some(ActKind::Fut(Box::pin(async move {
                        receiver(world, rc, conn, dir, lens_of(&ops), eof, f, plan).await;
                        sh2.parts_dropped.borrow_mut()[k][end] += 1;
                    }))),
                });
            }
        }
        Style::PingPong { rounds } => {
            let mut a = a;
            let mut b = b.unwrap();
            let (world1, sh1, r1) = (world.clone(), sh.clone(), rounds.clone());
            acts.push(Act {
                class: 1,
                tag: (k as u64) * 8 + 4,
                kind: Some(ActKind::Fut(Box::pin(async move {
                    for (seq, (cl, rl)) in r1.iter().enumerate() {
                        let call = mk_call(conn, 0, seq as u32, *cl);
                        if let Err(e) = a.send_call(&call).await {
                            sh1.fail("C19/send-error", format!("connection {conn}: ping-pong call {seq} failed: {e:?}"));
                            return;
                        }
                        match a.receive_reply::<Rep<'_>, ErrA>().await {
                            Ok(Ok(rep)) => {
                                let ok = rep.parameters().map(|p| p.conn == conn && p.seq == seq as u32 && *p.pad == *pad(*rl, salt(conn, 1, seq as u32))).unwrap_or(false);
                                world1.borrow_mut().ev("b.reply", conn as u64, seq as u64);
                                if !ok {
                                    sh1.fail("C19/received-sequence-differs", format!("connection {conn}: reply {seq} (pad {rl}) arrived altered"));
                                    return;
                                }
                            }
                            other => {
                                sh1.fail("C19/receive-error", format!("connection {conn}: reply {seq} came back as {:?}", format!("{other:?}").chars().take(100).collect::<String>()));
                                return;
                            }
                        }
                    }
                }))),
            });
            let (world2, sh2, r2) = (world.clone(), sh.clone(), rounds.clone());
            acts.push(Act {
                class: 2,
                tag: (k as u64) * 8 + 5,
                kind: Some(ActKind::Fut(Box::pin(async move {
                    for (seq, (cl, rl)) in r2.iter().enumerate() {
                        match b.receive_call::<Msg<'_>>().await {
                            Ok(call) => {
                                let Msg::Msg { conn: c, dir: d, seq: s, pad: p } = call.method();
                                let ok = *c == conn && *d == 0 && *s == seq as u32 && **p == *pad(*cl, salt(conn, 0, seq as u32));
                                world2.borrow_mut().ev("b.recv", (conn as u64) * 2, seq as u64);
                                if !ok {
                                    sh2.fail("C19/received-sequence-differs", format!("connection {conn}: ping-pong call {seq} (pad {cl}) arrived altered"));
                                    return;
                                }
                            }
                            Err(e) => {
                                sh2.fail("C19/receive-error", format!("connection {conn}: receiving ping-pong call {seq} failed: {e:?}"));
                                return;
                            }
                        }
                        let rep = Reply::new(Some(Rep { conn, seq: seq as u32, pad: Cow::Owned(pad(*rl, salt(conn, 1, seq as u32))) }));
                        if let Err(e) = b.send_reply(&rep).await {
                            sh2.fail("C19/send-error", format!("connection {conn}: ping-pong reply {seq} failed: {e:?}"));
                            return;
                        }
                    }
                }))),
            });
        }
        Style::SendThenVanish { a2b, junk } => {
            let b = b.unwrap();
            let (ar, mut aw) = a.split();
            let (br, mut bw) = b.split();
            let junk_sent = Rc::new(std::cell::Cell::new(false));
            let a_gone = Rc::new(std::cell::Cell::new(false));
            {
                let (world, sh, junk, junk_sent, a_gone) = (world.clone(), sh.clone(), junk.clone(), junk_sent.clone(), a_gone.clone());
                acts.push(Act {
                    class: 1,
                    tag: (k as u64) * 8 + 1,
                    kind: Some(ActKind::Fut(Box::pin(async move {
                        for (seq, l) in junk.iter().enumerate() {
                            if let Err(e) = bw.send_call(&mk_call(conn, 1, seq as u32, *l)).await {
                                sh.fail("C19/send-error", format!("connection {conn}: small message {seq} towards the end that never reads failed: {e:?}"));
                                return;
                            }
                        }
                        world.borrow_mut().ev("b.junk_sent", conn as u64, junk.len() as u64);
                        junk_sent.set(true);
                        // keep this half open until the other end is gone
                        std::future::poll_fn(|_| if a_gone.get() { Poll::Ready(()) } else { Poll::Pending }).await;
                        drop(bw);
                    }))),
                });
            }
            {
                let (world, sh, ops, junk_sent, a_gone) = (world.clone(), sh.clone(), a2b.clone(), junk_sent.clone(), a_gone.clone());
                acts.push(Act {
                    class: 1,
                    tag: (k as u64) * 8,
                    kind: Some(ActKind::Fut(Box::pin(async move {
                        std::future::poll_fn(|_| if junk_sent.get() { Poll::Ready(()) } else { Poll::Pending }).await;
                        let recs = RefCell::new(Vec::new());
                        let fl = RefCell::new(None);
                        run_sender(&world, &mut aw, conn, 0, &ops, CancelPlan::Never, &recs, &fl).await;
                        if let Some((c, m)) = fl.into_inner() {
                            sh.fail(&c, format!("connection {conn} direction 0: {m}"));
                        }
                        // everything was handed to the kernel; now vanish with B's messages unread
                        drop(aw);
                        drop(ar);
                        world.borrow_mut().ev("b.sender_vanished", conn as u64, 0);
                        world.borrow_mut().stat("fault.peer_vanished_with_unread_data");
                        a_gone.set(true);
                    }))),
                });
            }
            {
                let (world, ops) = (world.clone(), a2b.clone());
                let f = failer(sh);
                let f2 = f.clone();
                acts.push(Act {
                    class: 2,
                    tag: (k as u64) * 8 + 2,
                    kind: Some(ActKind::Fut(Box::pin(async move {
                        let lens = lens_of(&ops);
                        let n = lens.len();
                        let mut rc = br;
                        // every message first ...
                        let mut pending_polls = 0u64;
                        for (seq, len) in lens.iter().enumerate() {
                            match abandonable(&world, rc.receive_call::<Msg<'_>>(), &CancelPlan::Never, &mut pending_polls).await {
                                Some(Ok(call)) => {
                                    let Msg::Msg { conn: c, dir: d, seq: s, pad: p } = call.method();
                                    let ok = *c == conn && *d == 0 && *s == seq as u32 && **p == *pad(*len, salt(conn, 0, seq as u32));
                                    world.borrow_mut().ev("b.recv", (conn as u64) * 2, seq as u64);
                                    if !ok {
                                        f("C19/received-sequence-differs", format!("connection {conn}: message {seq} (pad {len}) from the end that vanished arrived altered"));
                                        return;
                                    }
                                }
                                Some(Err(e)) => {
                                    f("C19/receive-error", format!("connection {conn}: the peer sent {n} complete messages and then vanished with unread data in its own queue; receiving message {seq} failed with {e:?} although the kernel delivers everything that was sent before it reports the reset"));
                                    return;
                                }
                                None => unreachable!(),
                            }
                        }
                        // ... then the failure (end-of-stream or a transport error, both are fine)
                        match rc.receive_call::<Msg<'_>>().await {
                            Err(_) => world.borrow_mut().stat("probe.failure_reported_only_after_all_messages_of_a_vanished_peer"),
                            Ok(c) => f2("C19/received-sequence-differs", format!("connection {conn}: a message nobody sent arrived after the peer vanished: {:?}", format!("{c:?}").chars().take(80).collect::<String>())),
                        }
                    }))),
                });
            }
        }
        Style::HalfClose { inbound, ops, split } => {
            let raw = raw.unwrap();
            let log = Rc::new(RefCell::new(Vec::new()));
            let recs = Rc::new(RefCell::new(Vec::new()));
            sh.cancel_results.borrow_mut().push((k, ops.clone(), recs.clone(), log.clone()));
            let (world1, sh1, ops1, inbound1, split1) = (world.clone(), sh.clone(), ops.clone(), inbound.clone(), *split);
            acts.push(Act {
                class: 1,
                tag: (k as u64) * 8 + 6,
                kind: Some(ActKind::Fut(Box::pin(async move {
                    let (mut ar, mut aw) = a.split();
                    if !split1 {
                        let c: Connection<B::Sock> = Connection::join(ar, aw);
                        (ar, aw) = c.split();
                    }
                    // everything the peer said, then the news that it will say no more
                    for (seq, len) in inbound1.iter().enumerate() {
                        match ar.receive_call::<Msg<'_>>().await {
                            Ok(call) => {
                                let Msg::Msg { conn: c, dir: d, seq: s, pad: p } = call.method();
                                let ok = *c == conn && *d == 1 && *s == seq as u32 && **p == *pad(*len, salt(conn, 1, seq as u32));
                                world1.borrow_mut().ev("b.recv", (conn as u64) * 2 + 1, seq as u64);
                                if !ok {
                                    sh1.fail("C19/received-sequence-differs", format!("connection {conn}: message {seq} (pad {len}) of a peer that then half-closed arrived altered"));
                                    return;
                                }
                            }
                            Err(e) => {
                                sh1.fail("C19/receive-error", format!("connection {conn}: receiving message {seq} of a peer that then half-closed failed: {e:?}"));
                                return;
                            }
                        }
                    }
                    match ar.receive_call::<Msg<'_>>().await {
                        Err(_) => world1.borrow_mut().ev("b.eof_seen", conn as u64, 0),
                        Ok(c) => {
                            sh1.fail("C19/received-sequence-differs", format!("connection {conn}: a message nobody sent arrived after the peer closed its sending direction: {:?}", format!("{c:?}").chars().take(80).collect::<String>()));
                            return;
                        }
                    }
                    // the peer still reads: what is sent now must arrive
                    let fl = RefCell::new(None);
                    run_sender(&world1, &mut aw, conn, 0, &ops1, CancelPlan::Never, &recs, &fl).await;
                    if let Some((c, m)) = fl.into_inner() {
                        sh1.fail(&c, format!("connection {conn} (the peer has closed its sending direction only and keeps reading): {m}"));
                    }
                }))),
            });
            acts.push(Act { class: 3, tag: (k as u64) * 8 + 7, kind: Some(ActKind::Raw(RawReader { sock: raw, log })) });
        }
        Style::CancelRaw { ops, plan } => {
            let raw = raw.unwrap();
            let log = Rc::new(RefCell::new(Vec::new()));
            let recs = Rc::new(RefCell::new(Vec::new()));
            sh.cancel_results.borrow_mut().push((k, ops.clone(), recs.clone(), log.clone()));
            let (world1, sh1, ops1, plan1) = (world.clone(), sh.clone(), ops.clone(), plan.clone());
            let (_ar, mut aw) = a.split();
            acts.push(Act {
                class: 1,
                tag: (k as u64) * 8 + 6,
                kind: Some(ActKind::Fut(Box::pin(async move {
                    let fl = RefCell::new(None);
                    run_sender(&world1, &mut aw, conn, 0, &ops1, plan1, &recs, &fl).await;
                    if let Some((c, m)) = fl.into_inner() {
                        sh1.fail(&c, format!("connection {conn}: {m}"));
                    }
                    // both halves go away here: the raw peer then reads end-of-stream
                }))),
            });
            acts.push(Act { class: 3, tag: (k as u64) * 8 + 7, kind: Some(ActKind::Raw(RawReader { sock: raw, log })) });
        }
    }
    sh.new_acts.borrow_mut().extend(acts);
}

async fn scenario<B: Backend>(world: &World, plan: &Plan) -> Result<(), (String, String)> {
    let sh: Rc<Shared<B::Sock>> = Rc::new(Shared {
        fail: RefCell::new(None),
        ids: RefCell::new(Vec::new()),
        accepted: RefCell::new([VecDeque::new(), VecDeque::new()]),
        connected: RefCell::new([VecDeque::new(), VecDeque::new()]),
        parts_dropped: RefCell::new(vec![[0, 0]; plan.conns.len()]),
        new_acts: RefCell::new(Vec::new()),
        cancel_results: RefCell::new(Vec::new()),
    });
    let dir = TmpDir(std::env::temp_dir().join(format!("zs{}-{}", std::process::id(), DIR_COUNTER.fetch_add(1, Ordering::Relaxed))));
    std::fs::create_dir_all(&dir.0).map_err(|e| ("HARNESS/panic".to_string(), format!("cannot create {:?}: {e}", dir.0)))?;

    // Listener-made connections, in plan order per listener kind.
    let mut via: [Vec<usize>; 2] = [Vec::new(), Vec::new()];
    for (k, c) in plan.conns.iter().enumerate() {
        match c.how {
            How::Bound => via[0].push(k),
            How::Inherited => via[1].push(k),
            How::Pair => {}
        }
    }
    let mut acts: Vec<Act> = Vec::new();
    let abstract_name = format!("zs-abstract-{}-{}", std::process::id(), DIR_COUNTER.fetch_add(1, Ordering::Relaxed));
    for (li, ks) in via.iter().enumerate() {
        if ks.is_empty() {
            continue;
        }
        let path = dir.0.join(if li == 0 { "b" } else { "i" });
        let lis = if li == 0 {
            world.borrow_mut().stat("probe.listener_bound_by_zlink");
            B::bind(&path)
        } else {
            // a listener somebody else created and left in blocking mode, handed over as a descriptor
            world.borrow_mut().stat("probe.listener_from_inherited_descriptor");
            let std_l = if plan.abstract_inherited {
                use std::os::linux::net::SocketAddrExt;
                world.borrow_mut().stat("probe.inherited_listener_bound_in_the_abstract_namespace");
                let addr = std::os::unix::net::SocketAddr::from_abstract_name(abstract_name.as_bytes()).map_err(|e| ("HARNESS/panic".to_string(), format!("abstract address: {e}")))?;
                StdUnixListener::bind_addr(&addr).map_err(|e| ("HARNESS/panic".to_string(), format!("bind (abstract): {e}")))?
            } else {
                StdUnixListener::bind(&path).map_err(|e| ("HARNESS/panic".to_string(), format!("bind: {e}")))?
            };
            std_l.set_nonblocking(false).unwrap();
            B::from_fd(OwnedFd::from(std_l))
        };
        let mut lis = match lis {
            Ok(l) => l,
            Err(e) => return Err(("C19/listener-error".into(), format!("creating the {} listener failed: {e:?}", ["bound", "inherited-descriptor"][li]))),
        };
        let n = ks.len();
        let (sh1, world1) = (sh.clone(), world.clone());
        acts.push(Act {
            class: 0,
            tag: 1000 + li as u64,
            kind: Some(ActKind::Fut(Box::pin(async move {
                for j in 0..n {
                    match lis.accept().await {
                        Ok(c) => {
                            world1.borrow_mut().ev("b.accepted", li as u64, j as u64);
                            sh1.accepted.borrow_mut()[li].push_back(c);
                        }
                        Err(e) => {
                            sh1.fail("C19/listener-error", format!("accept {j} on the {} listener failed: {e:?}", ["bound", "inherited-descriptor"][li]));
                            return;
                        }
                    }
                }
            }))),
        });
        let (sh2, world2) = (sh.clone(), world.clone());
        let (abstract_li, abstract_name2) = (plan.abstract_inherited, abstract_name.clone());
        acts.push(Act {
            class: 0,
            tag: 1010 + li as u64,
            kind: Some(ActKind::Fut(Box::pin(async move {
                for j in 0..n {
                    let made = if li == 1 && abstract_li {
                        // no path to connect to: a plain std connect to the abstract address, then wrapped
                        use std::os::linux::net::SocketAddrExt;
                        std::os::unix::net::SocketAddr::from_abstract_name(abstract_name2.as_bytes())
                            .and_then(|a| StdUnixStream::connect_addr(&a))
                            .map(|s| Connection::new(B::wrap(s)))
                            .map_err(zlink_core::Error::Io)
                    } else {
                        B::connect(path.clone()).await
                    };
                    match made {
                        Ok(c) => {
                            world2.borrow_mut().ev("b.connected", li as u64, j as u64);
                            sh2.connected.borrow_mut()[li].push_back(c);
                        }
                        Err(e) => {
                            sh2.fail("C19/listener-error", format!("connect {j} to the {} listener failed: {e:?}", ["bound", "inherited-descriptor"][li]));
                            return;
                        }
                    }
                }
            }))),
        });
    }
    // Socket pairs exist from the start.
    for (k, c) in plan.conns.iter().enumerate() {
        if c.how != How::Pair {
            continue;
        }
        let (sa, sb) = StdUnixStream::pair().map_err(|e| ("HARNESS/panic".to_string(), format!("socketpair: {e}")))?;
        if let Some(v) = c.sndbuf {
            set_sndbuf(&sa, v);
            set_sndbuf(&sb, v);
        }
        let a = Connection::new(B::wrap(sa));
        if let Style::HalfClose { inbound, .. } = &c.style {
            // the raw peer says what it has to say (little enough for any socket buffer), closes
            // its sending direction and from then on only reads
            for (seq, l) in inbound.iter().enumerate() {
                let mut f = frame_bytes(k as u32, 1, seq as u32, *l);
                f.push(0);
                (&sb).write_all(&f).map_err(|e| ("HARNESS/panic".to_string(), format!("raw peer write: {e}")))?;
            }
            sb.shutdown(std::net::Shutdown::Write).map_err(|e| ("HARNESS/panic".to_string(), format!("raw peer shutdown: {e}")))?;
            world.borrow_mut().stat("fault.peer_half_closed_and_keeps_reading");
            sb.set_nonblocking(true).unwrap();
            spawn_conn::<B>(world, &sh, k, c, a, None, Some(sb));
        } else if matches!(c.style, Style::CancelRaw { .. }) {
            sb.set_nonblocking(true).unwrap();
            spawn_conn::<B>(world, &sh, k, c, a, None, Some(sb));
        } else {
            let b = Connection::new(B::wrap(sb));
            spawn_conn::<B>(world, &sh, k, c, a, Some(b), None);
        }
    }
    let mut next_via = [0usize, 0usize];
    let waker = Waker::noop();
    let mut step: usize = 0;
    let mut buf = vec![0u8; 65_536];
    loop {
        // connections completed by the listener become live
        for li in 0..2 {
            loop {
                let ready = !sh.accepted.borrow()[li].is_empty() && !sh.connected.borrow()[li].is_empty();
                if !ready {
                    break;
                }
                let srv = sh.accepted.borrow_mut()[li].pop_front().unwrap();
                let cli = sh.connected.borrow_mut()[li].pop_front().unwrap();
                let k = via[li][next_via[li]];
                next_via[li] += 1;
                spawn_conn::<B>(world, &sh, k, &plan.conns[k], cli, Some(srv), None);
            }
        }
        acts.append(&mut sh.new_acts.borrow_mut());
        if sh.fail.borrow().is_some() {
            break;
        }
        let live: Vec<usize> = (0..acts.len()).filter(|i| acts[*i].kind.is_some()).collect();
        if live.is_empty() {
            break;
        }
        let pick = {
            let mut w = world.borrow_mut();
            w.tick();
            let total: usize = live.iter().map(|i| plan.weights[acts[*i].class]).sum();
            // tape value 0 = round robin, so a minimised (zero-padded) tape still makes progress
            let mut v = (w.tape.draw(total) + step * 3) % total;
            let mut chosen = live[0];
            for i in &live {
                let wt = plan.weights[acts[*i].class];
                if v < wt {
                    chosen = *i;
                    break;
                }
                v -= wt;
            }
            chosen
        };
        step += 1;
        let tag = acts[pick].tag;
        let done = match acts[pick].kind.as_mut().unwrap() {
            ActKind::Fut(f) => {
                let mut cx = Context::from_waker(waker);
                let mut r = f.as_mut().poll(&mut cx).is_ready();
                if B::SPIN_CONNECT && (1010..1020).contains(&tag) && !r {
                    let li = (tag - 1010) as usize;
                    let before = sh.connected.borrow()[li].len();
                    let t0 = std::time::Instant::now();
                    while !r && sh.connected.borrow()[li].len() == before && sh.fail.borrow().is_none() {
                        if t0.elapsed().as_secs() > 30 {
                            sh.fail("C19/listener-error", "connect did not complete within 30 s of wall-clock time".into());
                            break;
                        }
                        std::thread::yield_now();
                        r = f.as_mut().poll(&mut cx).is_ready();
                    }
                }
                let mut w = world.borrow_mut();
                w.ev("b.poll", tag, r as u64);
                if !r && acts[pick].class == 1 {
                    w.stat("probe.sender_suspended_on_full_socket");
                    w.nontrivial = true;
                }
                r
            }
            ActKind::Raw(r) => {
                let want = {
                    let mut w = world.borrow_mut();
                    [512usize, 4096, 65_536][w.tape.draw(3)]
                };
                match (&r.sock).read(&mut buf[..want]) {
                    Ok(0) => {
                        world.borrow_mut().ev("b.raw.eof", tag, 0);
                        true
                    }
                    Ok(n) => {
                        r.log.borrow_mut().extend_from_slice(&buf[..n]);
                        let mut w = world.borrow_mut();
                        w.bytes_moved += n as u64;
                        w.ev("b.raw.read", tag, n as u64);
                        false
                    }
                    Err(e) if e.kind() == std::io::ErrorKind::WouldBlock => {
                        world.borrow_mut().ev("b.raw.empty", tag, 0);
                        false
                    }
                    Err(e) => {
                        sh.fail("C19/peer-read-error", format!("raw peer read failed: {e}"));
                        true
                    }
                }
            }
        };
        if done {
            acts[pick].kind = None;
        }
        B::turn().await;
    }
    drop(acts);
    if let Some(f) = sh.fail.borrow_mut().take() {
        return Err(f);
    }
    // connection identifiers
    {
        let ids = sh.ids.borrow();
        let mut sorted = ids.clone();
        sorted.sort_unstable();
        sorted.dedup();
        if sorted.len() != ids.len() {
            return Err(("C19/duplicate-connection-id".into(), format!("{} connections in this run share identifiers", ids.len())));
        }
        world.borrow_mut().stat_add("connections.created", ids.len() as u64);
    }
    // raw peers of abandoned sends
    for (k, ops, recs, log) in sh.cancel_results.borrow().iter() {
        let mut frames = Vec::new();
        for l in lens_of(ops) {
            frames.push(frame_bytes(*k as u32, 0, frames.len() as u32, l));
        }
        let recs = recs.borrow();
        if recs.iter().any(|r| r.outcome == Outcome::Cancelled) {
            world.borrow_mut().stat("runs.with_abandoned_send");
        }
        check_peer_stream(&frames, &recs, &log.borrow()).map_err(|(c, m)| (c, format!("connection {k}: {m}")))?;
    }
    Ok(())
}

thread_local! {
    static RT: tokio::runtime::Runtime = tokio::runtime::Builder::new_current_thread().enable_io().build().expect("tokio runtime");
}

/// Minimal block_on for the smol tier: the scenario never really suspends (the harness polls the
/// endpoint futures itself), so a noop waker and a loop suffice.
fn block_on_local<F: Future>(fut: F) -> F::Output {
    let mut fut = std::pin::pin!(fut);
    let mut cx = Context::from_waker(Waker::noop());
    loop {
        if let Poll::Ready(v) = fut.as_mut().poll(&mut cx) {
            return v;
        }
    }
}

fn run_tier_b(world: &World, smol: bool, thorough: bool) -> Verdict {
    let plan = {
        let mut w = world.borrow_mut();
        w.cfg = Cfg::plain();
        let plan = gen_plan(&mut w.tape, thorough);
        w.step_cap = 40_000 + (plan.total_bytes as u64) / 4;
        if w.want_sample {
            w.scenario = Some(describe_plan(&plan, if smol { "smol" } else { "tokio" }));
        }
        w.stat(if smol { "tier.B_smol_runs" } else { "tier.B_tokio_runs" });
        for c in &plan.conns {
            let lens: Vec<usize> = match &c.style {
                Style::Duplex { a2b, b2a, .. } => {
                    if !a2b.is_empty() && !b2a.is_empty() {
                        w.stat("probe.traffic_in_both_directions");
                    }
                    lens_of(a2b).into_iter().chain(lens_of(b2a)).collect()
                }
                Style::PingPong { rounds } => rounds.iter().flat_map(|r| [r.0, r.1]).collect(),
                Style::CancelRaw { ops, .. } => lens_of(ops),
                Style::SendThenVanish { a2b, junk } => lens_of(a2b).into_iter().chain(junk.iter().copied()).collect(),
                Style::HalfClose { inbound, ops, .. } => lens_of(ops).into_iter().chain(inbound.iter().copied()).collect(),
            };
            let sb = c.sndbuf.unwrap_or(212_992);
            w.stat_add("frames.submitted", lens.len() as u64);
            if lens.iter().any(|l| *l > sb) {
                w.stat("probe.message_larger_than_socket_buffer");
            }
            if lens.iter().any(|l| *l > 262_144) {
                w.stat("probe.message_over_256KiB");
            }
        }
        if plan.conns.len() >= 4 {
            w.stat("probe.four_or_more_connections");
        }
        plan
    };
    let r = if smol { block_on_local(scenario::<SmolB>(world, &plan)) } else { RT.with(|rt| rt.block_on(scenario::<TokioB>(world, &plan))) };
    r?;
    {
        // how much of its step budget the run used (per mille), to keep the cap honest
        let mut w = world.borrow_mut();
        let used = w.steps * 1_000_000 / w.step_cap.max(1);
        let k = w.stats.entry("tierB_step_budget_used_ppm_summed_over_runs").or_insert(0);
        *k += used;
        if used > 20_000 {
            w.stat("probe.tierB_run_used_over_2_percent_of_step_cap");
        }
    }
    Ok(world.borrow_mut().scenario.take())
}

/// C07 over the real transports: duplex connections on real tokio / smol Unix sockets whose
/// receivers abandon pending receives (at every suspension point the transport crates' read halves
/// have) and start over. Same worlds, scheduler and oracle as tier B; classes are reported under
/// C07 because what is judged is cancel safety of receive.
pub fn run_receive_abandonment_on_real_sockets(world: &World, smol: bool) -> Verdict {
    let plan = {
        let mut w = world.borrow_mut();
        w.cfg = Cfg::plain();
        let t = &mut w.tape;
        let n = 1 + t.draw(2);
        let mut budget = (1usize << 18, 1usize);
        let start = budget.0;
        let mut conns = Vec::new();
        for _ in 0..n {
            let how = if t.draw(3) == 0 { How::Bound } else { How::Pair };
            let sndbuf = if how == How::Pair { [None, Some(4096), Some(16_384)][t.draw(3)] } else { None };
            let sb = sndbuf.unwrap_or(212_992);
            let class = [0, 0, 1, 4, 2][t.draw(5)];
            let n_max = if class >= 2 { 3 } else { 8 };
            let a2b = gen_ops_b(t, n_max, class, sb, &mut budget, 100_000, false);
            let back = if t.draw(2) == 0 { class } else { 0 };
            let b2a = gen_ops_b(t, n_max, back, sb, &mut budget, 100_000, true);
            let recv_cancel = match t.draw(4) {
                0 => CancelPlan::Prob(1, 2),
                1 => CancelPlan::Prob(1, 4),
                2 => CancelPlan::EveryKth(1),
                _ => CancelPlan::EveryKth(2 + t.draw(3)),
            };
            conns.push(ConnPlan { how, sndbuf, style: Style::Duplex { a2b, b2a, close_first: t.draw(2), recv_cancel } });
        }
        let weights = match t.draw(3) {
            0 => [2, 2, 2, 1],
            1 => [1, 8, 1, 1],
            _ => [1, 1, 8, 2],
        };
        let plan = Plan { conns, weights, total_bytes: start - budget.0, abstract_inherited: false };
        w.step_cap = 40_000 + (plan.total_bytes as u64) / 4;
        if w.want_sample {
            w.scenario = Some(describe_plan(&plan, if smol { "smol" } else { "tokio" }));
        }
        w.stat(if smol { "real_socket_runs.smol" } else { "real_socket_runs.tokio" });
        plan
    };
    let r = if smol { block_on_local(scenario::<SmolB>(world, &plan)) } else { RT.with(|rt| rt.block_on(scenario::<TokioB>(world, &plan))) };
    r.map_err(|(c, m)| (c.replacen("C19/", "C07/", 1), format!("over real {} Unix sockets: {m}", if smol { "smol" } else { "tokio" })))?;
    Ok(world.borrow_mut().scenario.take())
}

impl Prop for EndToEnd {
    fn id(&self) -> &'static str {
        "C19"
    }

    fn run(&self, world: &World, _want_sample: bool) -> Verdict {
        let tier = world.borrow_mut().tape.draw(16);
        match tier {
            0..=9 => run_tier_a(world),
            10..=12 => run_tier_b(world, false, self.thorough),
            _ => run_tier_b(world, true, self.thorough),
        }
    }

    fn systematic(&self, _tier: Tier) -> Vec<Vec<u32>> {
        Vec::new()
    }

    fn random_runs(&self, tier: Tier) -> u64 {
        match tier {
            Tier::Quick => 16_000,
            Tier::Thorough => 400_000,
        }
    }

    fn watchdog_secs(&self) -> Option<u64> {
        Some(if self.thorough { 900 } else { 120 })
    }

    fn rule(&self) -> String {
        "Each execution is one of three worlds, chosen by the first tape value. Tier A (10/16): a real Connection over a simulated bounded pipe whose write half runs the transport crates' write-all loop over a primitive that accepts at most the free capacity; the tape decides capacity (16..4096), message sizes around it, when the raw peer drains, and at which pending poll a send/flush future is abandoned. Tier B (3/16 tokio, 3/16 smol): the real zlink_tokio / zlink_smol unix Stream, Listener, connect, bind and Listener::try_from(OwnedFd) on real kernel sockets in a private temporary directory, 1..8 connections made by socketpair / bound listener / inherited blocking-mode descriptor, SO_SNDBUF 4 KiB..default, messages 0 B..300 KB (quick) / 1 MiB (thorough); styles: split duplex with both directions busy and end-of-stream check after close, unsplit call/reply ping-pong, and abandoned sends against a raw peer descriptor. This thread issues every syscall; the tape decides which endpoint future is polled next (weights: writer-fast / reader-fast / fair); tokio's I/O driver is turned after every step. Oracle: decoded sequence = sent sequence per direction (connection, direction, sequence number and position-dependent filler compared); connection ids pairwise distinct; end-of-stream after close; for abandoned sends the raw peer's byte stream must split into whole frames, each a submitted message, in order, at most once, all completed sends present. Non-trivial = a partial write, full pipe/socket, or abandonment happened; distinct = distinct event-sequence hash (tier B hashes every poll outcome, raw read size and receipt, so kernel nondeterminism would show up as a determinism mismatch).".into()
    }

    fn components(&self) -> Value {
        json!({
            "real": ["zlink_core::Connection / ReadConnection / WriteConnection (send_call, enqueue_call, flush, receive_call, send_reply, receive_reply, split, id)", "json_ser", "tier B: zlink_tokio::unix::{Stream, ReadHalf, WriteHalf, Listener, bind, connect, Listener::try_from(OwnedFd)}", "tier B: zlink_smol::unix (same items)", "tier B: tokio current-thread I/O driver, async-io reactor, the Linux kernel's AF_UNIX stream sockets (real, not stubbed; driven from one thread)"],
            "stub": ["tier A: PSocket bounded pipe + write-all loop copied from the transport crates (ours)", "raw peer reader", "scheduler of endpoint futures (ours; replaces the runtimes' task schedulers)"],
        })
    }

    fn assumptions(&self) -> Vec<String> {
        vec![
            "tier B trusts the kernel to be a deterministic function of the syscall sequence one thread issues; every quick run re-executes a sample and compares history hashes".into(),
            "connection ids are compared within one run only (worker threads create connections concurrently, so absolute values are not part of the history)".into(),
            "a thread blocked inside a syscall (e.g. accept on a listener left in blocking mode) is caught by a wall-clock watchdog, not by the tape".into(),
        ]
    }

    fn extra_evidence(&self, stats: &BTreeMap<String, u64>) -> Value {
        json!({
            "tier_A_runs": stats.get("tier.A_runs"),
            "tier_B_tokio_runs": stats.get("tier.B_tokio_runs"),
            "tier_B_smol_runs": stats.get("tier.B_smol_runs"),
        })
    }
}
