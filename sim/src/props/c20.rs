//! C20 — notified state: subscribers converge on the latest value, in order; one-shot yields one
//! final reply; tokio and smol behave identically in these respects.
//!
//! The real `zlink_tokio::notified` / `zlink_smol::notified` types with their real channels are
//! driven poll by poll from one thread; the tape chooses the operation sequence.

use crate::{
    runner::{Prop, Tier, Verdict},
    world::World,
};
use futures_util::Stream as _;
use serde_json::{json, Value};
use std::{
    future::Future,
    pin::Pin,
    sync::{
        atomic::{AtomicBool, Ordering},
        Arc,
    },
    task::{Context, Poll, Wake, Waker},
};

pub struct Notified;

const SYS_MODE: u32 = 7;

struct Flag(AtomicBool);
impl Wake for Flag {
    fn wake(self: Arc<Self>) {
        self.0.store(true, Ordering::Relaxed);
    }
    fn wake_by_ref(self: &Arc<Self>) {
        self.0.store(true, Ordering::Relaxed);
    }
}

#[derive(Debug, Clone, Copy, PartialEq)]
enum Op {
    Set,
    Subscribe,
    Poll(usize),
    DropSub(usize),
    CloneState,
    DropClone,
    DropAllStates,
}

#[derive(Debug, Clone, PartialEq)]
enum Seen {
    Item(u64, Option<bool>),
    End,
}

#[derive(Default, Debug, Clone)]
struct SubLog {
    created_after_sets: usize,
    seen: Vec<Seen>,
    dropped: bool,
}

struct Outcome {
    subs: Vec<SubLog>,
    fail: Option<(String, String)>,
    lag_skips: u64,
    pending_polls: u64,
    wakeups_checked: u64,
    states_gone_checked: u64,
}

/// Which of two wake flags belongs to the context of the latest poll.
struct WokenLatest<'a> {
    a: Arc<Flag>,
    b: Arc<Flag>,
    use_b: &'a std::cell::Cell<bool>,
}

impl WokenLatest<'_> {
    fn woken(&self) -> bool {
        if self.use_b.get() {
            self.b.0.load(Ordering::Relaxed)
        } else {
            self.a.0.load(Ordering::Relaxed)
        }
    }
}

macro_rules! drive_state {
    ($modpath:path, $name:expr, $ops:expr) => {{
        use $modpath as nt;
        let name: &str = $name;
        let ops: &[Op] = $ops;
        let mut states: Vec<nt::State<u64, u64>> = vec![nt::State::new(0u64)];
        struct Sub {
            stream: Option<nt::Stream<u64>>,
            // the stream may be polled from different task contexts over its life (handed from
            // one task to another): two wakers, used in turn; only the latest one has to fire
            flag: Arc<Flag>,
            waker: Waker,
            flag2: Arc<Flag>,
            waker2: Waker,
            polls: u64,
            last_pending: bool,
        }
        let mut subs: Vec<Sub> = Vec::new();
        let mut logs: Vec<SubLog> = Vec::new();
        let mut sets: Vec<u64> = Vec::new();
        let mut next_val = 1u64;
        let mut fail: Option<(String, String)> = None;
        let mut pending_polls = 0u64;
        let mut wakeups_checked = 0u64;
        let mut states_gone_checked = 0u64;
        let noop = Waker::from(Arc::new(Flag(AtomicBool::new(false))));

        let mut poll_sub = |i: usize, subs: &mut Vec<Sub>, logs: &mut Vec<SubLog>, sets: &Vec<u64>, states_alive: bool, fail: &mut Option<(String, String)>, pending_polls: &mut u64| -> bool {
            // returns true if the poll produced something (Ready)
            let s = &mut subs[i];
            let Some(stream) = s.stream.as_mut() else { return false };
            s.flag.0.store(false, Ordering::Relaxed);
            s.flag2.0.store(false, Ordering::Relaxed);
            // contexts change every third poll: A A A B B B A ...
            s.polls += 1;
            let second = (s.polls / 3) % 2 == 1;
            let mut cx = Context::from_waker(if second { &s.waker2 } else { &s.waker });
            match Pin::new(stream).poll_next(&mut cx) {
                Poll::Pending => {
                    s.last_pending = true;
                    *pending_polls += 1;
                    false
                }
                Poll::Ready(None) => {
                    s.last_pending = false;
                    logs[i].seen.push(Seen::End);
                    if states_alive && fail.is_none() {
                        *fail = Some(("C20/subscription-ended-while-state-exists".into(), format!("{name}: subscriber {i} got end-of-stream although the state still exists (sets so far {sets:?}, seen {:?})", logs[i].seen)));
                    }
                    true
                }
                Poll::Ready(Some(reply)) => {
                    s.last_pending = false;
                    let v = reply.parameters().copied();
                    let c = reply.continues();
                    let prev = logs[i].seen.iter().rev().find_map(|x| if let Seen::Item(v, _) = x { Some(*v) } else { None });
                    match v {
                        None => {
                            if fail.is_none() {
                                *fail = Some(("C20/item-without-value".into(), format!("{name}: subscriber {i}")));
                            }
                        }
                        Some(v) => {
                            logs[i].seen.push(Seen::Item(v, c));
                            if fail.is_none() {
                                if !sets.contains(&v) {
                                    *fail = Some(("C20/value-never-set".into(), format!("{name}: subscriber {i} received {v}, values set so far {sets:?}")));
                                } else if prev.map(|p| v <= p).unwrap_or(false) {
                                    *fail = Some(("C20/out-of-order-or-duplicate".into(), format!("{name}: subscriber {i} received {v} after {prev:?}")));
                                } else if c != Some(true) {
                                    *fail = Some(("C20/item-not-marked-continuing".into(), format!("{name}: subscriber {i} value {v} has continues={c:?}")));
                                }
                            }
                        }
                    }
                    true
                }
            }
        };

        for op in ops {
            match *op {
                Op::Set => {
                    if states.is_empty() {
                        continue;
                    }
                    let v = next_val;
                    next_val += 1;
                    sets.push(v);
                    // any clone may be the one that publishes (they share the channel)
                    let which = (v as usize) % states.len();
                    {
                        let fut = states[which].set(v);
                        let mut fut = std::pin::pin!(fut);
                        let mut cx = Context::from_waker(&noop);
                        let mut done = false;
                        for _ in 0..4 {
                            if fut.as_mut().poll(&mut cx).is_ready() {
                                done = true;
                                break;
                            }
                        }
                        if !done && fail.is_none() {
                            fail = Some(("C20/set-blocks".into(), format!("{name}: set({v}) did not complete")));
                        }
                    }
                    // every state clone reports the value of the clone it was set on only; get()
                    // on states[0] must be the new value
                    if states[which].get() != v && fail.is_none() {
                        fail = Some(("C20/get-not-latest".into(), format!("{name}: get() = {} after set({v})", states[which].get())));
                    }
                    // lost wake-up detector
                    for (i, s) in subs.iter().enumerate() {
                        if s.stream.is_some() && s.last_pending {
                            wakeups_checked += 1;
                            let second = (s.polls / 3) % 2 == 1;
                            let woken = if second { s.flag2.0.load(Ordering::Relaxed) } else { s.flag.0.load(Ordering::Relaxed) };
                            if !woken && fail.is_none() {
                                fail = Some(("C20/lost-wakeup".into(), format!("{name}: subscriber {i} was pending and set({v}) did not wake the task that polled it last")));
                            }
                        }
                    }
                }
                Op::Subscribe => {
                    if states.is_empty() || subs.len() >= 3 {
                        continue;
                    }
                    let flag = Arc::new(Flag(AtomicBool::new(false)));
                    let waker = Waker::from(flag.clone());
                    let flag2 = Arc::new(Flag(AtomicBool::new(false)));
                    let waker2 = Waker::from(flag2.clone());
                    let st = states.last().unwrap().stream();
                    subs.push(Sub { stream: Some(st), flag, waker, flag2, waker2, polls: 0, last_pending: false });
                    logs.push(SubLog { created_after_sets: sets.len(), seen: vec![], dropped: false });
                }
                Op::Poll(i) => {
                    if i < subs.len() {
                        let alive = !states.is_empty();
                        poll_sub(i, &mut subs, &mut logs, &sets, alive, &mut fail, &mut pending_polls);
                    }
                }
                Op::DropSub(i) => {
                    if i < subs.len() {
                        subs[i].stream = None;
                        logs[i].dropped = true;
                    }
                }
                Op::CloneState => {
                    if let Some(s) = states.last() {
                        if states.len() < 3 {
                            let c = s.clone();
                            states.push(c);
                        }
                    }
                }
                Op::DropClone => {
                    if states.len() > 1 {
                        states.pop();
                    }
                }
                Op::DropAllStates => {
                    states.clear();
                }
            }
        }
        // convergence: drain every live subscriber, then its last item must be the last value set
        let alive = !states.is_empty();
        for i in 0..subs.len() {
            if subs[i].stream.is_none() {
                continue;
            }
            let mut n = 0;
            while n < 12 && poll_sub(i, &mut subs, &mut logs, &sets, alive, &mut fail, &mut pending_polls) {
                if matches!(logs[i].seen.last(), Some(Seen::End)) {
                    break;
                }
                n += 1;
            }
            // (also when every clone of the state is gone by now: a value that was set while the
            // subscriber existed is still owed to it - "always eventually the most recent")
            if fail.is_none() {
                if !alive {
                    states_gone_checked += 1;
                }
                let sets_after = sets.len() - logs[i].created_after_sets;
                if sets_after > 0 {
                    let last = logs[i].seen.iter().rev().find_map(|x| if let Seen::Item(v, _) = x { Some(*v) } else { None });
                    if last != sets.last().copied() {
                        fail = Some(("C20/latest-value-not-delivered".into(), format!("{name}: subscriber {i} (subscribed after {} sets) drained to {:?}; values set: {sets:?}; last set value {:?} missing", logs[i].created_after_sets, logs[i].seen, sets.last())));
                    }
                }
            }
        }
        let lag_skips: u64 = logs
            .iter()
            .map(|l| {
                let got = l.seen.iter().filter(|s| matches!(s, Seen::Item(..))).count();
                (sets.len() - l.created_after_sets).saturating_sub(got) as u64
            })
            .sum();
        drop(states);
        Outcome { subs: logs, fail, lag_skips, pending_polls, wakeups_checked, states_gone_checked }
    }};
}

/// One-shot: ops are 0 = poll, 1 = notify, 2 = drop the notifier.
macro_rules! drive_once {
    ($modpath:path, $name:expr, $ops:expr) => {{
        use $modpath as nt;
        let name: &str = $name;
        let ops: &[u32] = $ops;
        let (once, mut stream) = nt::Once::<u64>::new();
        let mut once = Some(once);
        // the one-shot stream is handed from task to task: every poll comes from the other context,
        // and only the context of the latest poll has to be woken
        let flag_a = Arc::new(Flag(AtomicBool::new(false)));
        let waker_a = Waker::from(flag_a.clone());
        let flag_b = Arc::new(Flag(AtomicBool::new(false)));
        let waker_b = Waker::from(flag_b.clone());
        let use_b = std::cell::Cell::new(false);
        let flag = WokenLatest { a: flag_a.clone(), b: flag_b.clone(), use_b: &use_b };
        let mut seen: Vec<Seen> = Vec::new();
        let mut fail: Option<(String, String)> = None;
        let mut notified = false;
        let mut last_pending = false;
        let mut poll = |stream: &mut nt::Stream<u64>, seen: &mut Vec<Seen>, last_pending: &mut bool| {
            flag_a.0.store(false, Ordering::Relaxed);
            flag_b.0.store(false, Ordering::Relaxed);
            use_b.set(!use_b.get());
            let mut cx = Context::from_waker(if use_b.get() { &waker_b } else { &waker_a });
            match Pin::new(stream).poll_next(&mut cx) {
                Poll::Pending => *last_pending = true,
                Poll::Ready(None) => {
                    *last_pending = false;
                    seen.push(Seen::End)
                }
                Poll::Ready(Some(r)) => {
                    *last_pending = false;
                    seen.push(Seen::Item(r.parameters().copied().unwrap_or(u64::MAX), r.continues()))
                }
            }
        };
        for op in ops {
            match op {
                0 => poll(&mut stream, &mut seen, &mut last_pending),
                1 => {
                    if let Some(o) = once.take() {
                        o.notify(42u64);
                        notified = true;
                        if last_pending && !flag.woken() && fail.is_none() {
                            fail = Some(("C20/lost-wakeup".into(), format!("{name}: one-shot stream was pending and notify did not wake the task that polled it last")));
                        }
                    }
                }
                _ => {
                    if once.take().is_some() && last_pending && !flag.woken() && fail.is_none() {
                        fail = Some(("C20/lost-wakeup".into(), format!("{name}: one-shot stream was pending and dropping the notifier did not wake it")));
                    }
                }
            }
        }
        // drain
        for _ in 0..4 {
            poll(&mut stream, &mut seen, &mut last_pending);
        }
        if fail.is_none() {
            let want: Vec<Seen> = if notified { vec![Seen::Item(42, Some(false)), Seen::End] } else if once.is_none() { vec![Seen::End] } else { vec![] };
            let mut got = seen.clone();
            got.dedup_by(|a, b| *a == Seen::End && *b == Seen::End);
            if got != want {
                fail = Some(("C20/one-shot-wrong-sequence".into(), format!("{name}: ops {ops:?} (0 poll, 1 notify, 2 drop notifier): expected {want:?}, got {seen:?}")));
            }
        }
        (seen, fail)
    }};
}

fn decode_op(d: usize) -> Op {
    match d {
        0 => Op::Set,
        1 => Op::Subscribe,
        2 => Op::Poll(0),
        3 => Op::Poll(1),
        4 => Op::Poll(2),
        5 => Op::DropSub(0),
        6 => Op::CloneState,
        7 => Op::DropClone,
        8 => Op::DropSub(1),
        _ => Op::DropAllStates,
    }
}

impl Prop for Notified {
    fn id(&self) -> &'static str {
        "C20"
    }

    fn run(&self, world: &World, want_sample: bool) -> Verdict {
        let (ops, once_ops, mode): (Vec<Op>, Vec<u32>, String) = {
            let mut w = world.borrow_mut();
            let t = &mut w.tape;
            if t.draw(8) as u32 == SYS_MODE {
                let n = t.draw(10);
                let ops = (0..n).map(|_| decode_op(t.draw(5))).collect();
                let m = t.draw(4);
                let once_ops = (0..m).map(|_| t.draw(3) as u32).collect();
                (ops, once_ops, "systematic".into())
            } else if t.draw(16) == 0 {
                // rhythm: a short unit of operations repeated many times (a subscriber that is
                // ready at every single poll for hundreds of polls, one that always lags by k, ...),
                // then nothing: regular patterns that random sequences never sustain
                let unit_len = 1 + t.draw(4);
                let unit: Vec<Op> = (0..unit_len)
                    .map(|_| match t.draw(6) {
                        0 | 1 => Op::Set,
                        2 | 3 => Op::Poll(0),
                        4 => Op::Poll(1),
                        _ => Op::Set,
                    })
                    .collect();
                let reps = [3usize, 17, 64, 127, 128, 129, 130, 255, 256, 257, 300, 520, 1030][t.draw(13)];
                let mut ops = vec![Op::Subscribe];
                if t.draw(2) == 1 {
                    ops.push(Op::Subscribe);
                }
                for _ in 0..reps {
                    ops.extend(unit.iter().copied());
                }
                let m = t.draw(5);
                let once_ops = (0..m).map(|_| t.draw(3) as u32).collect();
                (ops, once_ops, format!("rhythm unit={unit:?} x {reps}"))
            } else {
                // scale swarm: one sequence in sixteen is long (hundreds of sets, dozens of
                // subscribers with arbitrary indices), the rest stay within 6 sets / 3 subscribers
                let scale = t.draw(16) == 15;
                let n = if scale { 50 + t.draw(550) } else { 1 + t.draw(24) };
                let rare = t.draw(4) == 3;
                let mut sets = 0;
                let mut nsubs = 0usize;
                let mut ops = Vec::new();
                for _ in 0..n {
                    let d = t.weighted(&[6, 3, 6, 4, 3, 1, 1, 1, 1, if rare { 1 } else { 0 }]);
                    let mut op = decode_op(d);
                    if op == Op::Set {
                        sets += 1;
                        if sets > 6 && !scale {
                            continue;
                        }
                    }
                    if scale {
                        match op {
                            Op::Subscribe => nsubs += 1,
                            Op::Poll(_) if nsubs > 0 => op = Op::Poll(t.draw(nsubs)),
                            Op::DropSub(_) if nsubs > 0 => {
                                if t.draw(4) != 0 {
                                    continue;
                                }
                                op = Op::DropSub(t.draw(nsubs));
                            }
                            _ => {}
                        }
                    }
                    ops.push(op);
                }
                let m = t.draw(5);
                let once_ops = (0..m).map(|_| t.draw(3) as u32).collect();
                (ops, once_ops, "seeded".into())
            }
        };
        if want_sample || world.borrow().want_sample {
            world.borrow_mut().scenario = Some(json!({"mode": mode, "state_ops": ops.iter().map(|o| format!("{o:?}")).collect::<Vec<_>>(), "one_shot_ops(0 poll,1 notify,2 drop notifier)": once_ops}));
        }
        let a = drive_state!(zlink_tokio::notified, "tokio", &ops);
        let b = drive_state!(zlink_smol::notified, "smol", &ops);
        let (oa, fa) = drive_once!(zlink_tokio::notified, "tokio", &once_ops);
        let (ob, fb) = drive_once!(zlink_smol::notified, "smol", &once_ops);
        {
            let mut w = world.borrow_mut();
            for op in &ops {
                w.ev("op", hash_op(op), 0);
            }
            for (i, s) in a.subs.iter().enumerate() {
                for x in &s.seen {
                    let (v, c) = match x {
                        Seen::Item(v, c) => (*v, *c),
                        Seen::End => (u64::MAX, None),
                    };
                    w.ev("seen", i as u64, v ^ ((c == Some(true)) as u64) << 40);
                }
            }
            w.stat_add("items_skipped_by_lagging_subscribers", a.lag_skips + b.lag_skips);
            w.stat_add("polls_that_returned_pending", a.pending_polls + b.pending_polls);
            w.stat_add("wakeups_checked_after_set", a.wakeups_checked + b.wakeups_checked);
            w.stat_add("subscribers_drained_after_every_state_clone_was_dropped", a.states_gone_checked + b.states_gone_checked);
            if a.lag_skips + b.lag_skips > 0 || a.pending_polls > 0 {
                w.nontrivial = true;
            }
            w.steps += ops.len() as u64 * 2 + once_ops.len() as u64 * 2;
            let same = a.subs.iter().zip(b.subs.iter()).all(|(x, y)| x.seen == y.seen);
            w.stat(if same { "tokio_and_smol_item_sequences_identical" } else { "tokio_and_smol_item_sequences_differ_within_allowed_skipping" });
            if oa != ob {
                w.stat("tokio_and_smol_one_shot_sequences_differ");
            }
        }
        for f in [a.fail, b.fail, fa, fb].into_iter().flatten() {
            return Err(f);
        }
        // identical in the respects the statement names: the one-shot sequence is fully determined
        if oa.iter().filter(|s| **s != Seen::End).collect::<Vec<_>>() != ob.iter().filter(|s| **s != Seen::End).collect::<Vec<_>>() {
            return Err(("C20/tokio-smol-one-shot-differ".into(), format!("tokio {oa:?} vs smol {ob:?} for ops {once_ops:?}")));
        }
        Ok(world.borrow().scenario.clone())
    }

    fn systematic(&self, tier: Tier) -> Vec<Vec<u32>> {
        // all operation sequences over {set, subscribe, poll0, poll1, poll2} up to length L,
        // and all one-shot sequences over {poll, notify, drop} up to length 3
        let maxlen = if tier == Tier::Quick { 7 } else { 9 };
        let mut tapes = Vec::new();
        for len in 0..=maxlen {
            let combos = 5usize.pow(len as u32);
            for c in 0..combos {
                let mut v = vec![SYS_MODE, len as u32];
                let mut x = c;
                let mut ok = true;
                let mut nsub = 0;
                for _ in 0..len {
                    let d = x % 5;
                    x /= 5;
                    // prune sequences that poll a subscriber that does not exist yet
                    if d == 1 {
                        nsub += 1;
                    }
                    if d >= 2 && d - 2 >= nsub {
                        ok = false;
                        break;
                    }
                    v.push(d as u32);
                }
                if ok {
                    v.push(0);
                    tapes.push(v);
                }
            }
        }
        for m in 0..=3u32 {
            for c in 0..3u32.pow(m) {
                let mut v = vec![SYS_MODE, 0, m];
                let mut x = c;
                for _ in 0..m {
                    v.push(x % 3);
                    x /= 3;
                }
                tapes.push(v);
            }
        }
        tapes
    }

    fn random_runs(&self, tier: Tier) -> u64 {
        match tier {
            Tier::Quick => 150_000,
            Tier::Thorough => 3_000_000,
        }
    }

    fn rule(&self) -> String {
        "Each execution = one sequence of up to 24 operations with at most 6 sets and 3 subscribers (one in sixteen: 50..600 operations, hundreds of sets, dozens of subscribers; one in sixteen: a unit of 1..4 operations repeated 3..1030 times, e.g. set-poll-set-poll…, then silence) (set of a fresh increasing value, subscribe, poll subscriber j, drop subscriber, clone / drop a state clone, drop all states) applied to the real zlink_tokio::notified::State and, identically, to zlink_smol::notified::State, followed by draining every live subscriber; plus one one-shot sequence over {poll, notify, drop notifier}. Systematic part: every sequence over {set, subscribe, poll0, poll1, poll2} up to length 7 (quick) / 9 (thorough) and every one-shot sequence up to length 3. Model per subscriber: yielded values are values that were set, strictly increasing, each marked continues=true; no end-of-stream while a state exists; after draining, the last item is the last value set (if any was set after subscribing); a pending subscriber is woken by the next set. Non-trivial = a subscriber lagged (skipped at least one value) or returned Pending; distinct = distinct (operation sequence, observed items) hash.".into()
    }

    fn components(&self) -> Value {
        json!({
            "real": ["zlink_tokio::notified::{State, Once, Stream}", "tokio::sync::broadcast / oneshot", "tokio_stream::wrappers::BroadcastStream", "zlink_smol::notified::{State, Once, Stream}", "async-broadcast", "async-channel"],
            "stub": ["poll-by-poll driver with per-subscriber wakers (no runtime is needed: the channels are runtime-agnostic)"],
        })
    }

    fn assumptions(&self) -> Vec<String> {
        vec![
            "operations are applied one after another from one thread; data races inside the channel implementations under true parallelism are those crates' own concern".into(),
            "whether a subscriber sees a value set before it subscribed, and what happens after the last state clone is dropped, are left open by the statement and by the model".into(),
        ]
    }
}

fn hash_op(op: &Op) -> u64 {
    match op {
        Op::Set => 1,
        Op::Subscribe => 2,
        Op::Poll(i) => 10 + *i as u64,
        Op::DropSub(i) => 20 + *i as u64,
        Op::CloneState => 3,
        Op::DropClone => 4,
        Op::DropAllStates => 5,
    }
}
