pub mod c01;
pub mod c02;
pub mod c06;
pub mod c08;
pub mod c10n;
pub mod c17;
pub mod c20;
pub mod c19;
