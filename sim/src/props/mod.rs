pub mod c01;
