//! Real zlink clients for the server world: instead of a byte-level script, the other end of the
//! simulated wire is a real `Connection<SimSocket>` driven through the low-level API, a
//! `#[proxy]`-generated trait, or `chain_call(..).append(..).send()`. Client and server are both
//! real code; only the wire, the listener, the service body and the scheduler are ours.

use crate::{
    server_world::{flag_of, padstr, CallSpec, ClientSpec, SvcError},
    world::{SimSocket, World},
};
use futures_util::{pin_mut, stream::Stream, StreamExt};
use serde::{Deserialize, Serialize};
use serde_json::{json, Value};
use std::{cell::RefCell, rc::Rc};
use zlink_core::{proxy, Call, Connection};

#[derive(Debug, Clone, PartialEq)]
pub enum Exch {
    /// `send_call` (+ `receive_reply` until the call is complete, unless oneway)
    Low,
    /// the proxy-generated method for this call
    Proxy,
    /// `chain_call` + `append` for the next n calls, `send`, then the reply stream to its end
    Chain(usize),
}

#[derive(Debug, Serialize)]
#[serde(tag = "method", content = "parameters")]
enum CliMethod {
    #[serde(rename = "org.example.Echo")]
    Echo { cid: u32, seq: u32, pad: String },
    #[serde(rename = "org.example.Fail")]
    Fail { cid: u32, seq: u32 },
    #[serde(rename = "org.example.Slow")]
    Slow { cid: u32, seq: u32, polls: u32 },
    #[serde(rename = "org.example.Stream")]
    Stream { cid: u32, seq: u32, flags: Vec<u8>, ends: bool },
    #[serde(rename = "org.example.Len")]
    Len { cid: u32, seq: u32, pad: String },
}

#[derive(Debug, Deserialize)]
pub struct AnyRep {
    cid: u32,
    seq: u32,
    pad: Option<String>,
    idx: Option<u64>,
}

#[proxy(interface = "org.example", crate = "zlink_core")]
trait SvcProxy {
    async fn echo(&mut self, cid: u32, seq: u32, pad: &str) -> zlink_core::Result<Result<AnyRep, SvcError>>;
    async fn fail(&mut self, cid: u32, seq: u32) -> zlink_core::Result<Result<AnyRep, SvcError>>;
    async fn slow(&mut self, cid: u32, seq: u32, polls: u32) -> zlink_core::Result<Result<AnyRep, SvcError>>;
    async fn len(&mut self, cid: u32, seq: u32, pad: &str) -> zlink_core::Result<Result<AnyRep, SvcError>>;
    #[zlink(oneway, rename = "Len")]
    async fn len_oneway(&mut self, cid: u32, seq: u32, pad: &str) -> zlink_core::Result<()>;
    #[zlink(oneway, rename = "Echo")]
    async fn echo_oneway(&mut self, cid: u32, seq: u32, pad: &str) -> zlink_core::Result<()>;
    #[zlink(oneway, rename = "Fail")]
    async fn fail_oneway(&mut self, cid: u32, seq: u32) -> zlink_core::Result<()>;
    #[zlink(oneway, rename = "Slow")]
    async fn slow_oneway(&mut self, cid: u32, seq: u32, polls: u32) -> zlink_core::Result<()>;
    #[zlink(more)]
    async fn stream(
        &mut self,
        cid: u32,
        seq: u32,
        flags: Vec<u8>,
        ends: bool,
    ) -> zlink_core::Result<impl Stream<Item = zlink_core::Result<Result<AnyRep, SvcError>>>>;
}

fn mk_call(cid: u32, seq: u32, c: &CallSpec) -> Call<CliMethod> {
    let m = match c {
        CallSpec::Echo { pad, .. } => CliMethod::Echo { cid, seq, pad: padstr(*pad, cid * 7 + seq) },
        CallSpec::Len { pad, .. } => CliMethod::Len { cid, seq, pad: padstr(*pad, cid * 7 + seq) },
        CallSpec::Fail { .. } => CliMethod::Fail { cid, seq },
        CallSpec::Slow { polls, .. } => CliMethod::Slow { cid, seq, polls: *polls },
        CallSpec::Stream { flags, ends } => CliMethod::Stream { cid, seq, flags: flags.clone(), ends: *ends },
        CallSpec::Deferred { .. } => unreachable!("real clients are not given deferred calls"),
    };
    Call::new(m).set_oneway(c.oneway()).set_more(matches!(c, CallSpec::Stream { .. }))
}

/// What a client observed for one reply: the frame it stands for, and whether the API it came
/// through exposes the `continues` flag (proxy methods return bare parameters).
#[derive(Debug, Clone)]
pub struct Seen {
    pub value: Value,
    pub has_flag: bool,
}

#[derive(Debug, Default)]
pub struct RealResult {
    pub seen: Vec<Seen>,
    pub done: bool,
    pub error: Option<String>,
    /// index of the call the client is working on
    pub at_call: usize,
}

fn rep_value(r: &AnyRep) -> Value {
    let mut p = json!({"cid": r.cid, "seq": r.seq});
    if let Some(pad) = &r.pad {
        p["pad"] = json!(pad);
    }
    if let Some(idx) = r.idx {
        p["idx"] = json!(idx);
    }
    json!({ "parameters": p })
}

fn err_value(e: &SvcError) -> Value {
    match e {
        SvcError::Failed { cid, seq } => json!({"error": "org.example.Failed", "parameters": {"cid": cid, "seq": seq}}),
    }
}

fn low_value(r: &zlink_core::reply::Result<AnyRep, SvcError>) -> (Value, Option<bool>) {
    match r {
        Ok(rep) => {
            let mut v = match rep.parameters() {
                Some(p) => rep_value(p),
                None => json!({}),
            };
            if let Some(c) = rep.continues() {
                v["continues"] = json!(c);
            }
            (v, rep.continues())
        }
        Err(e) => (err_value(e), None),
    }
}

/// Conforming reply streams only: at least one item, every item but the last continues, the
/// stream ends afterwards (a `more` call whose service never says "last" has no defined end for a
/// client).
pub fn gen_conforming_stream(t: &mut crate::tape::Tape, max_items: usize) -> CallSpec {
    let n = 1 + t.draw(max_items);
    let mut flags = vec![0u8; n - 1];
    flags.push(1 + t.draw(2) as u8);
    debug_assert!(flags[..n - 1].iter().all(|f| flag_of(*f) == Some(true)));
    CallSpec::Stream { flags, ends: true }
}

pub async fn run_real_client(world: World, mut conn: Connection<SimSocket>, spec: ClientSpec, prog: Vec<Exch>, res: Rc<RefCell<RealResult>>) {
    let cid = spec.cid;
    let mut i = 0usize;
    macro_rules! bail {
        ($($a:tt)*) => {{
            res.borrow_mut().error = Some(format!($($a)*));
            return;
        }};
    }
    for ex in &prog {
        if i >= spec.calls.len() {
            break;
        }
        res.borrow_mut().at_call = i;
        match ex {
            Exch::Low => {
                let c = &spec.calls[i];
                let call = mk_call(cid, i as u32, c);
                if let Err(e) = conn.send_call(&call).await {
                    bail!("send_call for call {i} failed: {e:?}");
                }
                if !c.oneway() {
                    loop {
                        match conn.receive_reply::<AnyRep, SvcError>().await {
                            Ok(r) => {
                                let (v, cont) = low_value(&r);
                                world.borrow_mut().ev("cli.reply", cid as u64, i as u64);
                                res.borrow_mut().seen.push(Seen { value: v, has_flag: true });
                                if cont != Some(true) {
                                    break;
                                }
                            }
                            Err(e) => bail!("receive_reply for call {i} failed: {e:?}"),
                        }
                    }
                }
                i += 1;
            }
            Exch::Proxy => {
                let c = spec.calls[i].clone();
                let seq = i as u32;
                let single = match &c {
                    CallSpec::Echo { pad, oneway: false } => Some(conn.echo(cid, seq, &padstr(*pad, cid * 7 + seq)).await),
                    CallSpec::Len { pad, oneway: false } => Some(conn.len(cid, seq, &padstr(*pad, cid * 7 + seq)).await),
                    CallSpec::Len { pad, oneway: true } => {
                        if let Err(e) = conn.len_oneway(cid, seq, &padstr(*pad, cid * 7 + seq)).await {
                            bail!("proxy oneway call {i} failed: {e:?}");
                        }
                        None
                    }
                    CallSpec::Fail { oneway: false } => Some(conn.fail(cid, seq).await),
                    CallSpec::Slow { polls, oneway: false } => Some(conn.slow(cid, seq, *polls).await),
                    CallSpec::Echo { pad, oneway: true } => {
                        if let Err(e) = conn.echo_oneway(cid, seq, &padstr(*pad, cid * 7 + seq)).await {
                            bail!("proxy oneway call {i} failed: {e:?}");
                        }
                        None
                    }
                    CallSpec::Fail { oneway: true } => {
                        if let Err(e) = conn.fail_oneway(cid, seq).await {
                            bail!("proxy oneway call {i} failed: {e:?}");
                        }
                        None
                    }
                    CallSpec::Slow { polls, oneway: true } => {
                        if let Err(e) = conn.slow_oneway(cid, seq, *polls).await {
                            bail!("proxy oneway call {i} failed: {e:?}");
                        }
                        None
                    }
                    CallSpec::Deferred { .. } => unreachable!("real clients are not given deferred calls"),
                    CallSpec::Stream { flags, ends } => {
                        match conn.stream(cid, seq, flags.clone(), *ends).await {
                            Ok(s) => {
                                pin_mut!(s);
                                while let Some(item) = s.next().await {
                                    let v = match item {
                                        Ok(Ok(r)) => rep_value(&r),
                                        Ok(Err(e)) => err_value(&e),
                                        Err(e) => bail!("proxy stream for call {i} failed: {e:?}"),
                                    };
                                    world.borrow_mut().ev("cli.item", cid as u64, i as u64);
                                    res.borrow_mut().seen.push(Seen { value: v, has_flag: false });
                                }
                            }
                            Err(e) => bail!("proxy streaming call {i} failed: {e:?}"),
                        }
                        None
                    }
                };
                if let Some(r) = single {
                    let v = match r {
                        Ok(Ok(rep)) => rep_value(&rep),
                        Ok(Err(e)) => err_value(&e),
                        Err(e) => bail!("proxy call {i} failed: {e:?}"),
                    };
                    world.borrow_mut().ev("cli.reply", cid as u64, i as u64);
                    res.borrow_mut().seen.push(Seen { value: v, has_flag: false });
                }
                i += 1;
            }
            Exch::Chain(n) => {
                let hi = (i + (*n).max(1)).min(spec.calls.len());
                let first = mk_call(cid, i as u32, &spec.calls[i]);
                let mut chain = match conn.chain_call::<CliMethod, AnyRep, SvcError>(&first) {
                    Ok(c) => c,
                    Err(e) => bail!("chain_call at call {i} failed: {e:?}"),
                };
                for j in i + 1..hi {
                    chain = match chain.append(&mk_call(cid, j as u32, &spec.calls[j])) {
                        Ok(c) => c,
                        Err(e) => bail!("append of call {j} failed: {e:?}"),
                    };
                }
                match chain.send().await {
                    Ok(s) => {
                        pin_mut!(s);
                        while let Some(item) = s.next().await {
                            match item {
                                Ok(r) => {
                                    let (v, _) = low_value(&r);
                                    world.borrow_mut().ev("cli.chain_item", cid as u64, i as u64);
                                    res.borrow_mut().seen.push(Seen { value: v, has_flag: true });
                                }
                                Err(e) => bail!("chain stream (calls {i}..{hi}) failed: {e:?}"),
                            }
                        }
                    }
                    Err(e) => bail!("chain send (calls {i}..{hi}) failed: {e:?}"),
                }
                i = hi;
            }
        }
    }
    res.borrow_mut().at_call = i;
    res.borrow_mut().done = true;
    world.borrow_mut().ev("cli.done", cid as u64, 0);
    if !spec.closes {
        // keep the connection open to the end of the run
        std::future::pending::<()>().await;
    }
}
