//! Batch runner: seeded search over tapes, panic capture, determinism re-checks, minimisation,
//! replay files, known findings, evidence.

use crate::{
    tape::{hash_str, mix, Tape},
    world::{World, STEP_CAP_PANIC, W},
};
use serde_json::{json, Value};
use std::{
    cell::RefCell,
    collections::{BTreeMap, HashSet},
    panic::{catch_unwind, AssertUnwindSafe},
    path::PathBuf,
    sync::{
        atomic::{AtomicU64, AtomicUsize, Ordering},
        Mutex,
    },
    time::Instant,
};

#[derive(Clone, Copy, PartialEq, Debug)]
pub enum Tier {
    Quick,
    Thorough,
}

impl Tier {
    pub fn name(self) -> &'static str {
        match self {
            Tier::Quick => "quick",
            Tier::Thorough => "thorough",
        }
    }
}

pub type Verdict = Result<Option<Value>, (String, String)>;

pub trait Prop: Sync {
    fn id(&self) -> &'static str;
    fn level(&self) -> &'static str {
        "exploration"
    }
    /// Build the scenario from the world's tape, run it, evaluate the oracle.
    /// `Ok(sample)` = property held on this execution; `Err((class, message))` = violation.
    fn run(&self, world: &World, want_sample: bool) -> Verdict;
    /// Explicit tapes for the systematic part.
    fn systematic(&self, tier: Tier) -> Vec<Vec<u32>>;
    /// Number of extra seeded runs executed next to a live connection that holds tens of MiB
    /// (process-wide accounting, pooling or caching would only show there). 0 = no such pass.
    fn pressure_runs(&self, _tier: Tier) -> u64 {
        0
    }
    /// Number of seeded random runs.
    fn random_runs(&self, tier: Tier) -> u64;
    fn rule(&self) -> String;
    fn components(&self) -> Value;
    fn assumptions(&self) -> Vec<String>;
    /// Extra per-property evidence derived from the summed counters.
    fn extra_evidence(&self, _stats: &BTreeMap<String, u64>) -> Value {
        Value::Null
    }
    /// Called once per worker thread before its first run (e.g. to set the buffer limit knob).
    fn thread_init(&self) {}
    /// Properties whose runs issue real syscalls: a run that stays inside one execution longer
    /// than this many wall-clock seconds is reported as `<id>/blocked-thread`.
    fn watchdog_secs(&self) -> Option<u64> {
        None
    }
}

pub struct RunOut {
    pub fail: Option<(String, String)>,
    pub hash: u64,
    pub sig: u64,
    pub nontrivial: bool,
    pub steps: u64,
    pub env_events: u64,
    pub bytes: u64,
    pub stats: BTreeMap<&'static str, u64>,
    pub trace: Option<Vec<String>>,
    pub tape: Vec<u32>,
    pub sample: Option<Value>,
}

thread_local! {
    static LAST_PANIC: RefCell<String> = const { RefCell::new(String::new()) };
}

pub fn install_panic_hook() {
    std::panic::set_hook(Box::new(|info| {
        let loc = info.location().map(|l| format!("{}:{}", l.file(), l.line())).unwrap_or_default();
        let msg = if let Some(s) = info.payload().downcast_ref::<&str>() {
            s.to_string()
        } else if let Some(s) = info.payload().downcast_ref::<String>() {
            s.clone()
        } else {
            "<non-string panic>".to_string()
        };
        LAST_PANIC.with(|p| *p.borrow_mut() = format!("{msg} at {loc}"));
    }));
}

pub fn run_one(prop: &dyn Prop, tape: Tape, trace: bool, want_sample: bool) -> RunOut {
    let world = W::new(tape, trace);
    if want_sample {
        world.borrow_mut().want_sample = true;
    }
    crate::clock::reset();
    let res = catch_unwind(AssertUnwindSafe(|| prop.run(&world, want_sample)));
    crate::clock::reset();
    let mut w = world.borrow_mut();
    let id = prop.id();
    let (fail, sample) = match res {
        Ok(Ok(s)) => (w.fail.take(), s),
        Ok(Err(f)) => (Some(f), None),
        Err(payload) => {
            let is_cap = payload.downcast_ref::<&str>().map(|s| *s == STEP_CAP_PANIC).unwrap_or(false);
            if is_cap {
                (
                    Some((
                        format!("{id}/step-cap-livelock"),
                        format!("no quiescence within {} steps (steps by seam: {:?})", w.step_cap, w.tick_sites),
                    )),
                    None,
                )
            } else {
                let msg = LAST_PANIC.with(|p| p.borrow().clone());
                // Class keeps the panic site (file:line) out so that minimisation may simplify,
                // but keeps the first words of the message.
                let head: String = msg.split(" at ").next().unwrap_or("").chars().take(60).collect();
                let loc = msg.rsplit(" at ").next().unwrap_or("");
                if loc.starts_with("src/") {
                    // a panic in the simulator's own code is a harness error, never a verdict
                    (Some(("HARNESS/panic".to_string(), format!("panic in the harness: {msg}"))), None)
                } else {
                    (Some((format!("{id}/panic"), format!("panic: {head} ({msg})"))), None)
                }
            }
        }
    };
    RunOut {
        fail,
        hash: w.hash,
        sig: w.sig,
        nontrivial: w.nontrivial,
        steps: w.steps,
        env_events: w.env_events,
        bytes: w.bytes_moved,
        stats: std::mem::take(&mut w.stats),
        trace: w.trace.take(),
        tape: std::mem::take(&mut w.tape.rec),
        sample: sample.or_else(|| w.scenario.take()),
    }
}

pub fn seed_for(base: u64, id: &str, idx: u64) -> u64 {
    mix(mix(base, hash_str(id)), idx)
}

#[derive(Clone)]
enum Job {
    Sys(Vec<u32>),
    Rand(u64),
}

fn tape_for(job: &Job, base: u64, id: &str) -> Tape {
    match job {
        Job::Sys(v) => Tape::replay(v.clone()),
        Job::Rand(i) => Tape::generate(seed_for(base, id, *i)),
    }
}

#[derive(Default)]
struct Agg {
    evals: u64,
    steps: u64,
    env_events: u64,
    bytes: u64,
    stats: BTreeMap<String, u64>,
    sigs_nontrivial: HashSet<u64>,
    sigs_all: HashSet<u64>,
    samples: Vec<(usize, Value)>,
    det_checked: u64,
    digest: u64,
    det_mismatch: Vec<usize>,
    failures: Vec<(usize, String, String, Vec<u32>)>,
}

#[derive(serde::Deserialize, Clone, Debug)]
pub struct Finding {
    pub property: String,
    pub class: String,
    pub status: String,
    #[serde(default)]
    pub what: String,
    #[serde(default)]
    pub commit: String,
}

/// Which build of the simulator (and of zlink under it) this process is.
pub const BUILD: &str = if cfg!(debug_assertions) { "release+debug-assertions+overflow-checks" } else { "fast (opt-level 3, no debug assertions, no overflow checks)" };

/// The optimised-build pass adds its summary to the evidence file written by the main pass.
pub fn patch_evidence_with_twin(id: &str, rc: i32, seeded: u64, wall: f64) {
    let path = verif_dir().join("evidence").join(format!("{id}.json"));
    let Ok(s) = std::fs::read_to_string(&path) else { return };
    let Ok(mut v) = serde_json::from_str::<Value>(&s) else { return };
    v["coverage"]["optimised_build_pass"] = json!({
        "what": "the systematic cases and this many seeded runs (another seed) executed by a second build of the simulator and of zlink: opt-level 3, debug assertions off, overflow checks off",
        "build": BUILD, "seeded_random_runs": seeded, "exit": rc, "wall_s": wall,
    });
    if rc == 1 {
        v["violations"] = json!(1);
    }
    let _ = std::fs::write(&path, serde_json::to_string_pretty(&v).unwrap() + "\n");
}

pub fn verif_dir() -> PathBuf {
    std::env::var("VERIF_DIR").map(PathBuf::from).unwrap_or_else(|_| PathBuf::from("/verif"))
}

pub fn load_findings() -> Vec<Finding> {
    let p = verif_dir().join("known_findings.json");
    match std::fs::read_to_string(&p) {
        Ok(s) => {
            let v: Value = serde_json::from_str(&s).expect("known_findings.json must parse");
            serde_json::from_value(v["findings"].clone()).expect("known_findings.json: findings[]")
        }
        Err(_) => Vec::new(),
    }
}

pub struct Options {
    pub tier: Tier,
    pub seed: u64,
    pub workers: usize,
    pub runs_override: Option<u64>,
    pub write_evidence: bool,
    pub digest: bool,
    /// Seeded runs only (used by the pressure pass).
    pub skip_systematic: bool,
    /// Size of the process-wide ballast connection that is alive during this batch, if any
    /// (recorded in replay files so that a replay re-creates it).
    pub ballast: Option<usize>,
}

/// Summary of the pressure pass (seeded runs next to a live connection holding tens of MiB), set by
/// `main` before the main batch so that the evidence file can report it.
pub static PRESSURE_SUMMARY: Mutex<Option<Value>> = Mutex::new(None);
/// Set while a process-wide ballast connection exists.
pub static UNDER_BALLAST: std::sync::atomic::AtomicBool = std::sync::atomic::AtomicBool::new(false);

/// Returns the process exit code.
pub fn run_batch(prop: &dyn Prop, opt: &Options) -> i32 {
    let t0 = Instant::now();
    let id = prop.id();
    let findings: Vec<Finding> =
        load_findings().into_iter().filter(|f| f.property == id && f.status == "open").collect();
    let known_classes: HashSet<String> = findings.iter().map(|f| f.class.clone()).collect();

    let mut jobs: Vec<Job> = if opt.skip_systematic { Vec::new() } else { prop.systematic(opt.tier).into_iter().map(Job::Sys).collect() };
    let n_sys = jobs.len();
    let n_rand = opt.runs_override.unwrap_or_else(|| prop.random_runs(opt.tier));
    jobs.extend((0..n_rand).map(Job::Rand));
    let n_jobs = jobs.len();
    let det_every = (n_jobs / 400).max(1);

    let next = AtomicUsize::new(0);
    let min_fail = AtomicU64::new(u64::MAX);
    let agg = Mutex::new(Agg::default());
    // watchdog slots: (job index + 1, start time in ms since t0); 0 = idle
    let slots: Vec<(AtomicU64, AtomicU64)> = (0..opt.workers).map(|_| (AtomicU64::new(0), AtomicU64::new(0))).collect();
    let all_done = std::sync::atomic::AtomicBool::new(false);

    std::thread::scope(|s| {
        if let Some(limit) = prop.watchdog_secs() {
            let (slots, all_done, jobs) = (&slots, &all_done, &jobs);
            s.spawn(move || {
                while !all_done.load(Ordering::Relaxed) {
                    std::thread::sleep(std::time::Duration::from_millis(500));
                    let now = t0.elapsed().as_millis() as u64;
                    for (job, start) in slots.iter() {
                        let j = job.load(Ordering::Relaxed);
                        if j != 0 && now.saturating_sub(start.load(Ordering::Relaxed)) > limit * 1000 {
                            let idx = (j - 1) as usize;
                            let class = format!("{id}/blocked-thread");
                            let path = write_blocked_replay(prop, opt, idx, &class, &jobs[idx], limit);
                            println!("violation class={class} job={idx}: one execution did not return within {limit}s of wall-clock time (a thread is blocked inside a syscall or spinning)");
                            println!("VIOLATION property={id} replay={}", path.display());
                            std::process::exit(1);
                        }
                    }
                }
            });
        }
        let slow_ms: u64 = std::env::var("ZSIM_SLOW_MS").ok().and_then(|v| v.parse().ok()).unwrap_or(0);
        let mut handles = Vec::new();
        for wi in 0..opt.workers {
            let slot = &slots[wi];
            let (next, min_fail, agg, jobs, known_classes) = (&next, &min_fail, &agg, &jobs, &known_classes);
            handles.push(s.spawn(move || {
                prop.thread_init();
                let mut local = Agg::default();
                loop {
                    let i = next.fetch_add(1, Ordering::Relaxed);
                    if i >= n_jobs || (i as u64) > min_fail.load(Ordering::Relaxed) {
                        slot.0.store(0, Ordering::Relaxed);
                        break;
                    }
                    slot.1.store(t0.elapsed().as_millis() as u64, Ordering::Relaxed);
                    slot.0.store(i as u64 + 1, Ordering::Relaxed);
                    let want_sample = i < 2 || i == n_sys || i == n_sys + 1 || i + 1 == n_jobs;
                    let t_job = std::time::Instant::now();
                    let out = run_one(prop, tape_for(&jobs[i], opt.seed, id), false, want_sample);
                    if slow_ms > 0 && t_job.elapsed().as_millis() as u64 >= slow_ms {
                        // diagnostics only (stderr): which executions dominate a batch
                        eprintln!("SLOW job {i}: {} ms, steps {}, tape starts {:?}", t_job.elapsed().as_millis(), out.steps, &out.tape[..out.tape.len().min(8)]);
                    }
                    local.evals += 1;
                    local.digest = local.digest.wrapping_add(mix(mix(i as u64, out.hash), out.fail.is_some() as u64));
                    local.steps += out.steps;
                    local.env_events += out.env_events;
                    local.bytes += out.bytes;
                    for (k, v) in &out.stats {
                        *local.stats.entry(k.to_string()).or_insert(0) += v;
                    }
                    local.sigs_all.insert(out.sig);
                    if out.nontrivial {
                        local.sigs_nontrivial.insert(out.sig);
                    }
                    if let Some(sv) = out.sample {
                        local.samples.push((i, sv));
                    }
                    if i % det_every == 0 {
                        let again = run_one(prop, tape_for(&jobs[i], opt.seed, id), false, false);
                        local.det_checked += 1;
                        if again.hash != out.hash
                            || again.fail.as_ref().map(|f| &f.0) != out.fail.as_ref().map(|f| &f.0)
                        {
                            // Properties whose runs issue real syscalls share the machine with
                            // whatever else is running (a helper thread of a runtime that is starved
                            // of CPU, for one). A mismatch there counts only if it repeats: the job is
                            // executed twice more and must then agree with itself. Purely simulated
                            // properties get no second chance.
                            let mut noise = false;
                            if prop.watchdog_secs().is_some() {
                                let a2 = run_one(prop, tape_for(&jobs[i], opt.seed, id), false, false);
                                let b2 = run_one(prop, tape_for(&jobs[i], opt.seed, id), false, false);
                                noise = a2.hash == b2.hash && a2.fail.as_ref().map(|f| &f.0) == b2.fail.as_ref().map(|f| &f.0);
                            }
                            if noise {
                                *local.stats.entry("determinism.mismatch_on_real_sockets_that_did_not_repeat".to_string()).or_insert(0) += 1;
                            } else {
                                local.det_mismatch.push(i);
                            }
                        }
                    }
                    if let Some((class, msg)) = out.fail {
                        if !known_classes.contains(&class) {
                            min_fail.fetch_min(i as u64, Ordering::Relaxed);
                        }
                        local.failures.push((i, class, msg, out.tape));
                    }
                }
                let mut a = agg.lock().unwrap();
                a.evals += local.evals;
                a.digest = a.digest.wrapping_add(local.digest);
                a.steps += local.steps;
                a.env_events += local.env_events;
                a.bytes += local.bytes;
                for (k, v) in local.stats {
                    *a.stats.entry(k).or_insert(0) += v;
                }
                a.sigs_all.extend(local.sigs_all);
                a.sigs_nontrivial.extend(local.sigs_nontrivial);
                a.samples.extend(local.samples);
                a.det_checked += local.det_checked;
                a.det_mismatch.extend(local.det_mismatch);
                a.failures.extend(local.failures);
            }));
        }
        for h in handles {
            let _ = h.join();
        }
        all_done.store(true, Ordering::Relaxed);
    });

    let mut a = agg.into_inner().unwrap();
    a.failures.sort_by_key(|f| f.0);
    a.samples.sort_by_key(|s| s.0);

    if !a.det_mismatch.is_empty() {
        eprintln!(
            "HARNESS-ERROR: nondeterministic re-execution for {id} at job indices {:?}",
            &a.det_mismatch[..a.det_mismatch.len().min(10)]
        );
        return 2;
    }

    // Known findings: report each listed class that reproduced, with one minimised example.
    let mut known_seen: BTreeMap<String, (usize, u64)> = BTreeMap::new();
    let mut violation: Option<(usize, String, String, Vec<u32>)> = None;
    for f in &a.failures {
        if known_classes.contains(&f.1) {
            let e = known_seen.entry(f.1.clone()).or_insert((f.0, 0));
            e.1 += 1;
        } else if violation.is_none() {
            violation = Some(f.clone());
        }
    }

    let mut exit = 0;
    let mut known_lines = Vec::new();
    for (class, (first_idx, count)) in &known_seen {
        let f = a.failures.iter().find(|f| f.0 == *first_idx).unwrap();
        let (min_tape, _n) = minimise(prop, &f.3, class, 400, 5.0);
        let out = run_one(prop, Tape::replay(min_tape.clone()), true, true);
        let path = write_replay(prop, opt, *first_idx, class, &out, &min_tape, "known-finding");
        let what = findings.iter().find(|k| &k.class == class).map(|k| k.what.clone()).unwrap_or_default();
        let line = format!(
            "KNOWN-FINDING: property={id} class={class} occurrences={count} example={} ({what})",
            path.display()
        );
        println!("{line}");
        known_lines.push(line);
    }

    let mut violation_json = Value::Null;
    if let Some((idx, class, msg, tape)) = &violation {
        if class == "HARNESS/panic" {
            eprintln!("HARNESS-ERROR: {id} job {idx}: {msg}; tape {tape:?}");
            return 2;
        }
    }
    if let Some((idx, class, msg, tape)) = violation {
        let (min_tape, execs) = minimise(prop, &tape, &class, 3000, 30.0);
        let out = run_one(prop, Tape::replay(min_tape.clone()), true, true);
        let again = run_one(prop, Tape::replay(min_tape.clone()), false, false);
        let reproduced = out.fail.as_ref().map(|f| f.0 == class).unwrap_or(false) && out.hash == again.hash;
        if !reproduced {
            eprintln!("HARNESS-ERROR: minimised tape for {id} does not reproduce {class} deterministically (job {idx}: {msg}; minimised run gave {:?}; tape {:?})", out.fail, min_tape);
            return 2;
        }
        let path = write_replay(prop, opt, idx, &class, &out, &min_tape, "violation");
        println!("violation class={class} job={idx} original_tape_len={} minimised_len={} minimiser_execs={execs}", tape.len(), min_tape.len());
        println!("  first message: {msg}");
        println!("  minimised message: {}", out.fail.as_ref().unwrap().1);
        println!("VIOLATION property={id} replay={}", path.display());
        violation_json = json!({"class": class, "job": idx, "message": out.fail.as_ref().unwrap().1, "replay": path.display().to_string()});
        exit = 1;
    }

    let wall = t0.elapsed().as_secs_f64();
    if opt.write_evidence {
        let mut faults = serde_json::Map::new();
        let mut probes = serde_json::Map::new();
        let mut other = serde_json::Map::new();
        for (k, v) in &a.stats {
            if k.starts_with("fault.") || k.starts_with("buggify.") || k.starts_with("frag.") || k.starts_with("env.") {
                faults.insert(k.clone(), json!(v));
            } else if k.starts_with("probe.") {
                probes.insert(k.clone(), json!(v));
            } else {
                other.insert(k.clone(), json!(v));
            }
        }
        let samples: Vec<Value> = a.samples.iter().take(6).map(|(i, v)| json!({"job": i, "case": v})).collect();
        let ev = json!({
            "property_id": id,
            "tier": opt.tier.name(),
            "seed": opt.seed,
            "level": prop.level(),
            "coverage": {
                "evaluations": a.evals,
                "distinct_nontrivial": a.sigs_nontrivial.len(),
                "distinct_schedule_signatures": a.sigs_all.len(),
                "rule": prop.rule(),
                "samples": samples,
                "systematic_cases": n_sys,
                "seeded_random_runs": n_rand,
                "runs_per_hour": if wall > 0.0 { (a.evals as f64 / wall * 3600.0) as u64 } else { 0 },
                "logical_time": {"note": "zlink has no clock; logical time is counted in events", "executor_and_seam_steps": a.steps, "environment_events": a.env_events, "bytes_moved": a.bytes},
                "faults_and_buggify_fired": faults,
                "reach_probes": probes,
                "counters": other,
                "determinism": {"reexecuted": a.det_checked, "mismatches": a.det_mismatch.len()},
                "components": prop.components(),
                "extra": prop.extra_evidence(&a.stats),
                "known_findings_reproduced": known_lines,
                "violation": violation_json,
                "pressure_pass": PRESSURE_SUMMARY.lock().unwrap().clone(),
            },
            "assumptions": prop.assumptions(),
            "wall_s": wall,
            "violations": if exit == 1 { 1 } else { 0 },
        });
        let dir = verif_dir().join("evidence");
        let _ = std::fs::create_dir_all(&dir);
        std::fs::write(dir.join(format!("{id}.json")), serde_json::to_string_pretty(&ev).unwrap() + "\n")
            .expect("write evidence");
    }
    if opt.digest {
        println!("DIGEST {:016x} evals={} exit={}", a.digest, a.evals, exit);
    }
    println!(
        "{id} {}{}: {} executions ({} systematic + {} seeded), {} distinct non-trivial schedule signatures, {} determinism re-runs, {:.1}s, exit {}",
        opt.tier.name(), if opt.ballast.is_some() { " (pressure pass: next to a live connection holding tens of MiB)" } else { "" }, a.evals, n_sys, n_rand, a.sigs_nontrivial.len(), a.det_checked, wall, exit
    );
    exit
}

fn write_blocked_replay(prop: &dyn Prop, opt: &Options, idx: usize, class: &str, job: &Job, limit: u64) -> PathBuf {
    let dir = verif_dir().join("replays");
    let _ = std::fs::create_dir_all(&dir);
    let path = dir.join(format!("{}-{}-{}-{}.json", prop.id(), opt.seed, idx, class.replace('/', "_")));
    let (tape, gen_seed) = match job {
        Job::Sys(v) => (json!(v), Value::Null),
        Job::Rand(i) => (Value::Null, json!(seed_for(opt.seed, prop.id(), *i))),
    };
    let v = json!({
        "property": prop.id(),
        "kind": "violation",
        "tier": opt.tier.name(),
        "seed": opt.seed,
        "job_index": idx,
        "class": class,
        "message": format!("execution did not return within {limit}s"),
        "history_hash": "",
        "tape": tape,
        "tape_generator_seed": gen_seed,
        "build": BUILD,
        "watchdog_secs": limit,
        "note": "the execution never finished, so its tape could not be recorded or minimised; the replay regenerates it from tape_generator_seed",
    });
    std::fs::write(&path, serde_json::to_string_pretty(&v).unwrap() + "\n").expect("write replay");
    path
}

fn write_replay(
    prop: &dyn Prop,
    opt: &Options,
    idx: usize,
    class: &str,
    out: &RunOut,
    tape: &[u32],
    kind: &str,
) -> PathBuf {
    let dir = verif_dir().join("replays");
    let _ = std::fs::create_dir_all(&dir);
    let cls = class.replace('/', "_");
    let path = dir.join(format!("{}-{}-{}-{}.json", prop.id(), opt.seed, idx, cls));
    let v = json!({
        "property": prop.id(),
        "kind": kind,
        "tier": opt.tier.name(),
        "seed": opt.seed,
        "job_index": idx,
        "class": class,
        "message": out.fail.as_ref().map(|f| f.1.clone()),
        "history_hash": format!("{:016x}", out.hash),
        "tape": tape,
        "ballast_bytes": opt.ballast,
        "build": BUILD,
        "scenario": out.sample,
        "trace": out.trace,
    });
    std::fs::write(&path, serde_json::to_string_pretty(&v).unwrap() + "\n").expect("write replay");
    path
}

/// Generic tape minimiser: keeps any candidate that still fails with the same class.
pub fn minimise(prop: &dyn Prop, tape: &[u32], class: &str, max_execs: usize, max_secs: f64) -> (Vec<u32>, usize) {
    let t0 = Instant::now();
    let mut best: Vec<u32> = tape.to_vec();
    let mut execs = 0usize;
    let over = std::cell::Cell::new(false);
    let mut try_cand = |cand: Vec<u32>, best: &mut Vec<u32>, execs: &mut usize| -> bool {
        if *execs >= max_execs || t0.elapsed().as_secs_f64() > max_secs {
            over.set(true);
            return false;
        }
        *execs += 1;
        let out = run_one(prop, Tape::replay(cand), false, false);
        if out.fail.as_ref().map(|f| f.0 == class).unwrap_or(false) {
            // The recorded tape is normalised (values reduced, unused tail dropped).
            let rec = out.tape;
            if rec.len() < best.len() || (rec.len() == best.len() && rec < *best) {
                *best = rec;
                return true;
            }
        }
        false
    };
    // Normalise first.
    let b0 = best.clone();
    try_cand(b0, &mut best, &mut execs);
    let mut progress = true;
    while progress && execs < max_execs && t0.elapsed().as_secs_f64() <= max_secs {
        progress = false;
        // 1. Truncate the tail (binary search style).
        let mut cut = best.len() / 2;
        while cut >= 1 && !over.get() {
            if best.len() > cut {
                let cand = best[..best.len() - cut].to_vec();
                if try_cand(cand, &mut best, &mut execs) {
                    progress = true;
                    continue;
                }
            }
            cut /= 2;
        }
        // 2. Delete blocks.
        for size in [16usize, 8, 4, 2, 1] {
            let mut i = 0;
            while i + size <= best.len() && !over.get() {
                let mut cand = best.clone();
                cand.drain(i..i + size);
                if try_cand(cand, &mut best, &mut execs) {
                    progress = true;
                } else {
                    i += size;
                }
            }
        }
        // 3. Zero blocks / single values.
        for size in [8usize, 1] {
            let mut i = 0;
            while i + size <= best.len() && !over.get() {
                if best[i..i + size].iter().any(|v| *v != 0) {
                    let mut cand = best.clone();
                    for v in &mut cand[i..i + size] {
                        *v = 0;
                    }
                    if try_cand(cand, &mut best, &mut execs) {
                        progress = true;
                    }
                }
                i += size;
            }
        }
        // 4. Halve / decrement values.
        let mut i = 0;
        while i < best.len() && !over.get() {
            if best[i] > 0 {
                let mut cand = best.clone();
                cand[i] /= 2;
                if try_cand(cand, &mut best, &mut execs) {
                    progress = true;
                    continue;
                }
                let mut cand = best.clone();
                cand[i] -= 1;
                if try_cand(cand, &mut best, &mut execs) {
                    progress = true;
                    continue;
                }
            }
            i += 1;
        }
    }
    (best, execs)
}

/// `--replay <file>`: re-run a replay file in this (fresh) process.
pub fn replay_file(prop: &dyn Prop, path: &str) -> i32 {
    let s = match std::fs::read_to_string(path) {
        Ok(s) => s,
        Err(e) => {
            eprintln!("HARNESS-ERROR: cannot read {path}: {e}");
            return 2;
        }
    };
    let v: Value = serde_json::from_str(&s).expect("replay file must be JSON");
    let class = v["class"].as_str().unwrap_or("").to_string();
    let want_hash = v["history_hash"].as_str().unwrap_or("").to_string();
    let tape = match v["tape_generator_seed"].as_u64() {
        Some(seed) => Tape::generate(seed),
        None => Tape::replay(serde_json::from_value(v["tape"].clone()).expect("tape")),
    };
    if let Some(limit) = prop.watchdog_secs() {
        let limit = v["watchdog_secs"].as_u64().unwrap_or(limit);
        let (id, path2, class2) = (prop.id(), path.to_string(), class.clone());
        std::thread::spawn(move || {
            std::thread::sleep(std::time::Duration::from_secs(limit));
            println!("replayed: class={id}/blocked-thread message=execution did not return within {limit}s");
            println!("exact reproduction of recorded history: {}", if class2.ends_with("/blocked-thread") { "yes" } else { "NO (the file records another class)" });
            println!("VIOLATION property={id} replay={path2}");
            std::process::exit(1);
        });
    }
    prop.thread_init();
    // the run was recorded next to a live connection holding this many bytes: re-create it
    let _ballast = v["ballast_bytes"].as_u64().map(|n| {
        UNDER_BALLAST.store(true, Ordering::Relaxed);
        crate::neighbours::ballast(n as usize)
    });
    let out = run_one(prop, tape, true, true);
    if let Some(t) = &out.trace {
        for l in t {
            println!("{l}");
        }
    }
    let got_hash = format!("{:016x}", out.hash);
    let known: HashSet<String> = load_findings()
        .into_iter()
        .filter(|f| f.property == prop.id() && f.status == "open")
        .map(|f| f.class)
        .collect();
    match out.fail {
        Some((c, m)) => {
            println!("replayed: class={c} message={m}");
            println!("exact reproduction of recorded history: {}", if got_hash == want_hash && c == class { "yes" } else { "NO (class or history hash differs from the file)" });
            if known.contains(&c) {
                println!("KNOWN-FINDING: property={} class={c} replay={path}", prop.id());
                0
            } else {
                println!("VIOLATION property={} replay={path}", prop.id());
                1
            }
        }
        None => {
            println!("REPLAY-PASS: the recorded violation ({class}) does not occur on this tree (history hash {got_hash}, file has {want_hash})");
            0
        }
    }
}
