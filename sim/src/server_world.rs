//! The server world shared by C08 / C09 / C10 / C18: the real `Server::run` over the stub listener,
//! stub sockets driven by byte-level client scripts, a pure recording service and controllable
//! reply streams; plus the per-connection sequential reference model.

use crate::{
    exec::Exec,
    tape::Tape,
    world::{yield_n, Gate, PendingConn, SimListener, SimStream, StreamState, World},
};
use futures_util::Stream;
use serde::{Deserialize, Serialize};
use serde_json::{json, Value};
use std::{
    cell::RefCell,
    pin::Pin,
    rc::Rc,
    task::{Context, Poll},
};
use zlink_core::{service::MethodReply, Call, Reply, ReplyError, Server, Service};

#[derive(Debug, Deserialize)]
#[serde(tag = "method", content = "parameters")]
pub enum SvcMethod<'a> {
    #[serde(rename = "org.example.Echo")]
    Echo {
        cid: u32,
        seq: u32,
        // zero-copy when the peer wrote the string without escapes, owned otherwise
        #[serde(borrow)]
        pad: std::borrow::Cow<'a, str>,
    },
    #[serde(rename = "org.example.Fail")]
    Fail { cid: u32, seq: u32 },
    #[serde(rename = "org.example.Slow")]
    Slow { cid: u32, seq: u32, polls: u32 },
    #[serde(rename = "org.example.Stream")]
    Stream { cid: u32, seq: u32, flags: Vec<u8>, ends: bool },
    /// A call with a (possibly very large) payload whose reply only carries the payload's length,
    /// so that big inbound messages do not also cost a big outbound one.
    #[serde(rename = "org.example.Len")]
    Len {
        cid: u32,
        seq: u32,
        #[serde(borrow)]
        pad: std::borrow::Cow<'a, str>,
    },
}

#[derive(Debug, Serialize)]
pub struct EchoReply {
    cid: u32,
    seq: u32,
    pad: String,
}

#[derive(Debug, Serialize)]
pub struct Item {
    cid: u32,
    seq: u32,
    idx: u64,
}

#[derive(Debug, ReplyError)]
#[zlink(interface = "org.example", crate = "zlink_core")]
pub enum SvcError {
    Failed { cid: u32, seq: u32 },
}

#[derive(Debug, Clone, Copy, PartialEq)]
pub struct Handled {
    pub cid: u32,
    pub seq: u32,
    pub at: u64,
    pub oneway: bool,
    pub more: bool,
}


/// What the service needs to know about a call, whatever type it was decoded into.
pub enum View<'a> {
    Echo { cid: u32, seq: u32, pad: &'a str },
    Len { cid: u32, seq: u32, pad: &'a str },
    Fail { cid: u32, seq: u32 },
    Slow { cid: u32, seq: u32, polls: u32 },
    Stream { cid: u32, seq: u32, flags: &'a [u8], ends: bool },
}

pub trait CallView {
    fn view(&self) -> View<'_>;
}

impl CallView for SvcMethod<'_> {
    fn view(&self) -> View<'_> {
        match self {
            SvcMethod::Echo { cid, seq, pad } => View::Echo { cid: *cid, seq: *seq, pad },
            SvcMethod::Len { cid, seq, pad } => View::Len { cid: *cid, seq: *seq, pad },
            SvcMethod::Fail { cid, seq } => View::Fail { cid: *cid, seq: *seq },
            SvcMethod::Slow { cid, seq, polls } => View::Slow { cid: *cid, seq: *seq, polls: *polls },
            SvcMethod::Stream { cid, seq, flags, ends } => View::Stream { cid: *cid, seq: *seq, flags, ends: *ends },
        }
    }
}

/// The same methods with owned fields, decoded by way of a `serde_json::Value` (the application
/// first collects the call generically - `deserialize_any` on the call's inner deserializer - and
/// interprets it afterwards).
#[derive(Debug, Deserialize)]
#[serde(tag = "method", content = "parameters")]
pub enum SvcMethodOwned {
    #[serde(rename = "org.example.Echo")]
    Echo { cid: u32, seq: u32, pad: String },
    #[serde(rename = "org.example.Fail")]
    Fail { cid: u32, seq: u32 },
    #[serde(rename = "org.example.Slow")]
    Slow { cid: u32, seq: u32, polls: u32 },
    #[serde(rename = "org.example.Stream")]
    Stream { cid: u32, seq: u32, flags: Vec<u8>, ends: bool },
    #[serde(rename = "org.example.Len")]
    Len { cid: u32, seq: u32, pad: String },
}

#[derive(Debug)]
pub struct ViaValue(SvcMethodOwned);

impl<'de> Deserialize<'de> for ViaValue {
    fn deserialize<D: serde::Deserializer<'de>>(d: D) -> Result<Self, D::Error> {
        let v = Value::deserialize(d)?;
        SvcMethodOwned::deserialize(v).map(ViaValue).map_err(serde::de::Error::custom)
    }
}

impl CallView for ViaValue {
    fn view(&self) -> View<'_> {
        match &self.0 {
            SvcMethodOwned::Echo { cid, seq, pad } => View::Echo { cid: *cid, seq: *seq, pad },
            SvcMethodOwned::Len { cid, seq, pad } => View::Len { cid: *cid, seq: *seq, pad },
            SvcMethodOwned::Fail { cid, seq } => View::Fail { cid: *cid, seq: *seq },
            SvcMethodOwned::Slow { cid, seq, polls } => View::Slow { cid: *cid, seq: *seq, polls: *polls },
            SvcMethodOwned::Stream { cid, seq, flags, ends } => View::Stream { cid: *cid, seq: *seq, flags, ends: *ends },
        }
    }
}

/// A reply that borrows from the service (`ReplyParams<'ser>` is allowed to).
#[derive(Debug, Serialize)]
pub struct EchoReplyRef<'s> {
    cid: u32,
    seq: u32,
    pad: &'s str,
}

/// The usual way of writing `Service::ReplyStream`: a boxed trait object.
pub struct BoxStrm(Pin<Box<dyn Stream<Item = Reply<Item>>>>);

impl Stream for BoxStrm {
    type Item = Reply<Item>;
    fn poll_next(mut self: Pin<&mut Self>, cx: &mut Context<'_>) -> Poll<Option<Self::Item>> {
        self.0.as_mut().poll_next(cx)
    }
    fn size_hint(&self) -> (usize, Option<usize>) {
        self.0.size_hint()
    }
}

thread_local! {
    /// Where the zero-sized stream type finds its items (one stream per world, see `ZstStrm`).
    static ZST_SLOT: RefCell<Option<SvcStream>> = const { RefCell::new(None) };
}

/// A zero-sized `Service::ReplyStream`: a unit struct fed from a per-thread source (what a service
/// with one global subscription source might write). It carries no identity, so worlds that use
/// it contain at most one streaming call.
pub struct ZstStrm;

impl Stream for ZstStrm {
    type Item = Reply<Item>;
    fn poll_next(self: Pin<&mut Self>, cx: &mut Context<'_>) -> Poll<Option<Self::Item>> {
        ZST_SLOT.with(|s| match s.borrow_mut().as_mut() {
            Some(st) => Pin::new(st).poll_next(cx),
            None => Poll::Ready(None),
        })
    }
    fn size_hint(&self) -> (usize, Option<usize>) {
        ZST_SLOT.with(|s| s.borrow().as_ref().map(|st| st.size_hint()).unwrap_or((0, Some(0))))
    }
}

/// One instantiation of the `Service` trait's associated types.
pub trait SvcVariant: 'static {
    const NAME: &'static str;
    type Call<'de>: Deserialize<'de> + std::fmt::Debug + CallView;
    type Params<'s>: Serialize + std::fmt::Debug;
    type Strm: Stream<Item = Reply<Item>> + Unpin;
    fn params<'s>(scratch: &'s mut String, cid: u32, seq: u32, pad: String) -> Self::Params<'s>;
    fn stream(s: SvcStream) -> Self::Strm;
}

/// Call type derived and borrowing (`Cow`), owned reply, a concrete stream struct.
pub struct Everyday;
impl SvcVariant for Everyday {
    const NAME: &'static str = "derived borrowing call type, owned reply, concrete stream struct";
    type Call<'de> = SvcMethod<'de>;
    type Params<'s> = EchoReply;
    type Strm = SvcStream;
    fn params<'s>(_scratch: &'s mut String, cid: u32, seq: u32, pad: String) -> EchoReply {
        EchoReply { cid, seq, pad }
    }
    fn stream(s: SvcStream) -> SvcStream {
        s
    }
}

/// Call decoded by way of `serde_json::Value`, reply borrowing from the service, boxed stream.
pub struct Dynamic;
impl SvcVariant for Dynamic {
    const NAME: &'static str = "call decoded by way of serde_json::Value, reply borrowing from the service, Pin<Box<dyn Stream>>";
    type Call<'de> = ViaValue;
    type Params<'s> = EchoReplyRef<'s>;
    type Strm = BoxStrm;
    fn params<'s>(scratch: &'s mut String, cid: u32, seq: u32, pad: String) -> EchoReplyRef<'s> {
        *scratch = pad;
        EchoReplyRef { cid, seq, pad: scratch }
    }
    fn stream(s: SvcStream) -> BoxStrm {
        BoxStrm(Box::pin(s))
    }
}

/// As `Everyday`, with a zero-sized stream type.
pub struct ZeroSized;
impl SvcVariant for ZeroSized {
    const NAME: &'static str = "zero-sized reply stream type fed from a per-thread source";
    type Call<'de> = SvcMethod<'de>;
    type Params<'s> = EchoReply;
    type Strm = ZstStrm;
    fn params<'s>(_scratch: &'s mut String, cid: u32, seq: u32, pad: String) -> EchoReply {
        EchoReply { cid, seq, pad }
    }
    fn stream(s: SvcStream) -> ZstStrm {
        ZST_SLOT.with(|slot| *slot.borrow_mut() = Some(s));
        ZstStrm
    }
}

pub struct SimService<V: SvcVariant = Everyday> {
    pub variant: std::marker::PhantomData<V>,
    /// backing store of replies that borrow from the service
    pub scratch: String,
    pub world: World,
    pub log: Rc<RefCell<Vec<Handled>>>,
    /// Extra random suspension of every call (buggify `service_suspends`).
    pub suspends: bool,
    /// Called at the start of every `handle` with (cid, seq, event number): lets a scenario act
    /// while the server is in the middle of its loop (the server does not return to the executor
    /// between two calls it can serve without waiting).
    pub on_handle: Option<Rc<dyn Fn(u32, u32, u64)>>,
}

pub struct SvcStream {
    inner: SimStream,
    cid: u32,
    seq: u32,
}

impl Stream for SvcStream {
    type Item = Reply<Item>;
    fn poll_next(mut self: Pin<&mut Self>, cx: &mut Context<'_>) -> Poll<Option<Self::Item>> {
        let (cid, seq) = (self.cid, self.seq);
        match self.inner.poll_item(cx) {
            Poll::Pending => Poll::Pending,
            Poll::Ready(None) => Poll::Ready(None),
            Poll::Ready(Some((idx, cont))) => Poll::Ready(Some(Reply::new(Some(Item { cid, seq, idx })).set_continues(cont))),
        }
    }

    /// Truthful bounds when the world says so (per-run knob): the number of items still to come
    /// is known to the service even though none of them may be ready yet.
    fn size_hint(&self) -> (usize, Option<usize>) {
        let w = self.inner.world.borrow();
        let st = &w.streams[self.inner.id];
        let left = st.script.len() + st.available.len();
        match w.stream_size_hint {
            0 => (0, None),
            1 => (left, if st.ends { Some(left) } else { None }),
            _ => (left.min(1), None),
        }
    }
}

pub fn flag_of(b: u8) -> Option<bool> {
    match b % 3 {
        0 => Some(true),
        1 => Some(false),
        _ => None,
    }
}

impl<V: SvcVariant> Service for SimService<V> {
    type MethodCall<'de> = V::Call<'de>;
    type ReplyParams<'ser> = V::Params<'ser>;
    type ReplyStreamParams = Item;
    type ReplyStream = V::Strm;
    type ReplyError<'ser> = SvcError;

    async fn handle<'ser>(
        &'ser mut self,
        call: Call<Self::MethodCall<'_>>,
    ) -> MethodReply<Self::ReplyParams<'ser>, Self::ReplyStream, Self::ReplyError<'ser>> {
        let (cid, seq) = match call.method().view() {
            View::Echo { cid, seq, .. } | View::Fail { cid, seq } | View::Slow { cid, seq, .. } | View::Stream { cid, seq, .. } | View::Len { cid, seq, .. } => (cid, seq),
        };
        let extra = {
            let mut w = self.world.borrow_mut();
            w.ev("svc.handle", cid as u64, seq as u64);
            let at = w.seq;
            self.log.borrow_mut().push(Handled { cid, seq, at, oneway: call.oneway(), more: call.more() });
            // (gates may wait for "k calls handled so far")
            w.counter += 1;
            if let Some(f) = self.on_handle.clone() {
                drop(w);
                f(cid, seq, at);
                w = self.world.borrow_mut();
            }
            if self.suspends && w.tape.chance(1, 4) {
                w.stat("buggify.service_suspends");
                w.nontrivial = true;
                1 + w.tape.draw(3)
            } else {
                0
            }
        };
        if extra > 0 {
            yield_n(&self.world, extra).await;
        }
        match call.method().view() {
            View::Echo { cid, seq, pad } => {
                let pad = pad.to_string();
                MethodReply::Single(Some(V::params(&mut self.scratch, cid, seq, pad)))
            }
            View::Len { cid, seq, pad } => {
                // the payload must have arrived intact: its checksum goes into the (small) reply
                let pad = format!("{}:{}", pad.len(), pad_sum(pad));
                MethodReply::Single(Some(V::params(&mut self.scratch, cid, seq, pad)))
            }
            View::Fail { cid, seq } => MethodReply::Error(SvcError::Failed { cid, seq }),
            View::Slow { cid, seq, polls } => {
                yield_n(&self.world, polls as usize).await;
                MethodReply::Single(Some(V::params(&mut self.scratch, cid, seq, "slow".into())))
            }
            View::Stream { cid, seq, flags, ends } => {
                let id = {
                    let mut w = self.world.borrow_mut();
                    let mut st = StreamState::default();
                    for (i, f) in flags.iter().enumerate() {
                        st.script.push_back((i as u64, flag_of(*f)));
                    }
                    st.ends = ends;
                    st.created = true;
                    if w.eager_all || w.eager_streams.iter().any(|e| e.0 == cid && e.1 == seq) {
                        // every item is ready from the start
                        while let Some(it) = st.script.pop_front() {
                            st.available.push_back(it);
                            st.produced += 1;
                        }
                        w.stat("streams_that_are_never_pending_until_exhausted");
                        if st.ends {
                            // ... including its end: `None` comes right after the last item (for an
                            // empty stream: on the very first poll)
                            st.ended = true;
                        }
                    }
                    if let Some((_, _, from, gate)) = w.stream_gates.iter().find(|g| g.0 == cid && g.1 == seq).cloned() {
                        st.gate_from = from;
                        st.gate = Some(gate);
                        w.stat("streams_with_items_triggered_by_another_clients_call");
                    }
                    let id = w.new_stream(st);
                    w.ev("svc.stream_start", cid as u64, id as u64);
                    let sq = w.seq;
                    w.set_changes.push(sq);
                    id
                };
                MethodReply::Multi(V::stream(SvcStream { inner: SimStream { world: self.world.clone(), id }, cid, seq }))
            }
        }
    }
}

impl<V: SvcVariant> SimService<V> {
    pub fn new(world: World, log: Rc<RefCell<Vec<Handled>>>, suspends: bool, on_handle: Option<Rc<dyn Fn(u32, u32, u64)>>) -> Self {
        SimService { variant: std::marker::PhantomData, scratch: String::new(), world, log, suspends, on_handle }
    }
}

// ---------------------------------------------------------------------------------------------
// Client scripts

#[derive(Debug, Clone, PartialEq)]
pub enum CallSpec {
    Len { pad: usize, oneway: bool },
    Echo { pad: usize, oneway: bool },
    Fail { oneway: bool },
    Slow { polls: u32, oneway: bool },
    Stream { flags: Vec<u8>, ends: bool },
    /// A call *without* the `more` flag that the service nevertheless answers through a reply
    /// stream of exactly one item (the deferred-answer pattern of `notified::Once`).
    Deferred { flag: u8 },
}

impl CallSpec {
    pub fn oneway(&self) -> bool {
        match self {
            CallSpec::Echo { oneway, .. } | CallSpec::Fail { oneway } | CallSpec::Slow { oneway, .. } | CallSpec::Len { oneway, .. } => *oneway,
            CallSpec::Stream { .. } | CallSpec::Deferred { .. } => false,
        }
    }
}

#[derive(Debug, Clone, PartialEq)]
pub enum Fault {
    /// A frame of bytes that are not JSON, in front of call `at`.
    Garbage { at: usize },
    /// Call `at` is cut after `keep` bytes and the client disconnects.
    TruncatedThenEof { at: usize, keep: usize },
    /// The client disconnects after call `at - 1` although the burst was meant to go on.
    EofMidBurst { at: usize },
    /// The transport read fails after call `at - 1`.
    ReadError { at: usize },
    /// The k-th write to this client (and all later ones) fails.
    WriteError { kth: usize },
    /// The k-th write to this client fails once (nothing is written); later writes would succeed.
    WriteGlitch { kth: usize },
    /// Call `at` names a method the service does not know.
    UnknownMethod { at: usize },
    /// Call `at` has parameters of the wrong type.
    WrongTypes { at: usize },
    /// Call `at` is valid JSON of the wrong shape.
    WrongShape { at: usize },
    /// In front of call `at`: more than the (hook-lowered) limit without a terminator.
    Oversize { at: usize, len: usize },
}

#[derive(Debug, Clone)]
pub struct ClientSpec {
    pub cid: u32,
    pub calls: Vec<CallSpec>,
    pub faults: Vec<Fault>,
    /// Wait for the reply to call i before sending call i+1 (otherwise pipelined in one burst).
    pub pingpong: bool,
    /// Disconnect (EOF) after the last call.
    pub closes: bool,
    /// Connect only when everything else is quiet.
    pub after_quiet: bool,
}

/// Payload of `n` characters. One salt in four mixes in characters that the serializer has to
/// escape (U+0000, other control characters, quote, backslash) and multi-byte characters with
/// corner-case encodings; the rest is plain ASCII.
pub fn padstr(n: usize, salt: u32) -> String {
    let alphabet = b"abcdefghijklmnopqrstuvwxyz0123456789";
    const SPECIAL: [char; 16] = ['\u{0}', '"', '\\', '\n', '\u{1}', '\u{1f}', '\u{7f}', '\u{80}', '\u{e9}', '\u{2013}', '\u{1f600}', '/', '\t', '\u{ffff}', '\u{10ffff}', '\r'];
    let special = salt % 4 == 3;
    (0..n)
        .map(|i| {
            if special && i % 5 == 2 {
                SPECIAL[(i / 5 + salt as usize) % SPECIAL.len()]
            } else {
                alphabet[(i * 5 + salt as usize + i / 251) % alphabet.len()] as char
            }
        })
        .collect()
}

/// Position-weighted checksum of a payload (a shifted or partly overwritten payload changes it).
pub fn pad_sum(p: &str) -> u64 {
    // (bytes of the decoded string, so escapes on the wire do not matter)
    p.bytes().enumerate().fold(0u64, |h, (i, b)| h.wrapping_mul(31).wrapping_add(b as u64 ^ (i as u64 & 0xff)))
}

thread_local! {
    /// Per-run knob (set from the tape by the server-world checks): which liberties the scripted
    /// clients take when they *spell* a call. 0 = serde_json's compact output, members in
    /// alphabetical order, flags only when true.
    static CALL_SPELLING: std::cell::Cell<u32> = const { std::cell::Cell::new(0) };
}

pub fn set_call_spelling(mask: u32) {
    CALL_SPELLING.with(|c| c.set(mask));
}

pub fn call_frame(cid: u32, seq: u32, c: &CallSpec) -> Vec<u8> {
    let mut v = match c {
        CallSpec::Len { pad, .. } => json!({"method": "org.example.Len", "parameters": {"cid": cid, "seq": seq, "pad": padstr(*pad, cid * 7 + seq)}}),
        CallSpec::Echo { pad, .. } => json!({"method": "org.example.Echo", "parameters": {"cid": cid, "seq": seq, "pad": padstr(*pad, cid * 7 + seq)}}),
        CallSpec::Fail { .. } => json!({"method": "org.example.Fail", "parameters": {"cid": cid, "seq": seq}}),
        CallSpec::Slow { polls, .. } => json!({"method": "org.example.Slow", "parameters": {"cid": cid, "seq": seq, "polls": polls}}),
        CallSpec::Stream { flags, ends } => json!({"method": "org.example.Stream", "parameters": {"cid": cid, "seq": seq, "flags": flags, "ends": ends}, "more": true}),
        CallSpec::Deferred { flag } => json!({"method": "org.example.Stream", "parameters": {"cid": cid, "seq": seq, "flags": [flag], "ends": true}}),
    };
    if c.oneway() {
        v["oneway"] = json!(true);
    }
    let mask = CALL_SPELLING.with(|c| c.get());
    let style = mask & (crate::tape::mix(cid as u64 + 1, seq as u64 + 77) as u32);
    if style == 0 {
        return serde_json::to_vec(&v).unwrap();
    }
    spell_call(&v, style, crate::tape::mix(seq as u64 + 5, cid as u64))
}

/// A call spelled the way another Varlink implementation might legally write it. Bits of `style`:
/// 1 = another member order (the hash picks the permutation); 2 = blanks and line breaks between
/// tokens (the parameters pretty-printed); 4 = flags that are not set are written out as `false`;
/// 8 = an extra member the receiver does not know, with nested content; 16 = blanks around the
/// whole document; 32 = the call carries `"upgrade": true`; 64 = an unknown member whose string is not valid UTF-8. Member names are never escaped: zlink's `Call` decoder documents itself as
/// reading keys zero-copy, which no JSON decoder can do for an escaped name.
fn spell_call(v: &Value, style: u32, h: u64) -> Vec<u8> {
    let sp = if style & 2 != 0 { " " } else { "" };
    let params = if style & 2 != 0 { serde_json::to_string_pretty(&v["parameters"]).unwrap() } else { serde_json::to_string(&v["parameters"]).unwrap() };
    let mut members: Vec<String> = vec![format!("\"method\":{sp}{}", serde_json::to_string(&v["method"]).unwrap()), format!("\"parameters\":{sp}{params}")];
    for flag in ["oneway", "more", "upgrade"] {
        match v.get(flag) {
            Some(b) => members.push(format!("\"{flag}\":{sp}{b}")),
            // the third flag of the protocol: this service never upgrades, the server treats the
            // call like any other
            None if flag == "upgrade" && style & 32 != 0 => members.push(format!("\"upgrade\":{sp}true")),
            None if style & 4 != 0 => members.push(format!("\"{flag}\":{sp}false")),
            None => {}
        }
    }
    if style & 8 != 0 {
        members.push(format!("\"x-trace\":{sp}{{\"hops\":[1,{{\"via\":null}},\"a\\u0000b\"],\"method\":\"org.example.Nope\",\"oneway\":true}}"));
    }
    // 64 = a member the receiver does not know whose string value is not valid UTF-8 (a decoder
    // that skips unknown members does not look inside; the frame decodes)
    let invalid_utf8 = style & 64 != 0;
    if invalid_utf8 {
        members.push(format!("\"x-blob\":{sp}\"@@INVALID@@\""));
    }
    if style & 1 != 0 {
        // a permutation chosen by the hash (Fisher-Yates with successive digits of h)
        let mut h = h;
        for i in (1..members.len()).rev() {
            let j = (h % (i as u64 + 1)) as usize;
            h /= i as u64 + 1;
            members.swap(i, j);
        }
    }
    let sep = if style & 2 != 0 { ",\n  " } else { "," };
    let (open, close) = if style & 2 != 0 { ("{ ", "\n}") } else { ("{", "}") };
    let body = format!("{open}{}{close}", members.join(sep));
    let out = if style & 16 != 0 { format!(" \t{body}\r\n ") } else { body };
    let mut bytes = out.into_bytes();
    if invalid_utf8 {
        let pat = b"@@INVALID@@";
        if let Some(at) = bytes.windows(pat.len()).position(|w| w == pat) {
            bytes.splice(at..at + pat.len(), [0xFFu8, 0xFE, b'x', 0xC3, 0x28, 0xF0, 0x9F]);
        }
    }
    bytes
}

/// What the sequential reference execution of the (pure) service sends to this client.
/// Returns the frames as JSON values and the number of frames that precede each call's own
/// output (used to cut the reference at a fault).
pub fn reference_output(cid: u32, calls: &[CallSpec]) -> (Vec<Value>, Vec<usize>) {
    let mut out = Vec::new();
    let mut before = Vec::new();
    for (seq, c) in calls.iter().enumerate() {
        before.push(out.len());
        let seq = seq as u32;
        match c {
            _ if c.oneway() => {}
            CallSpec::Len { pad, .. } => {
                let p = padstr(*pad, cid * 7 + seq);
                out.push(json!({"parameters": {"cid": cid, "seq": seq, "pad": format!("{}:{}", p.len(), pad_sum(&p))}, "continues": false}))
            }
            CallSpec::Echo { pad, .. } => out.push(json!({"parameters": {"cid": cid, "seq": seq, "pad": padstr(*pad, cid * 7 + seq)}, "continues": false})),
            CallSpec::Slow { .. } => out.push(json!({"parameters": {"cid": cid, "seq": seq, "pad": "slow"}, "continues": false})),
            CallSpec::Fail { .. } => out.push(json!({"error": "org.example.Failed", "parameters": {"cid": cid, "seq": seq}})),
            CallSpec::Deferred { flag } => {
                let mut v = json!({"parameters": {"cid": cid, "seq": seq, "idx": 0}});
                if let Some(c) = flag_of(*flag) {
                    v["continues"] = json!(c);
                }
                out.push(v);
            }
            CallSpec::Stream { flags, ends } => {
                for (i, f) in flags.iter().enumerate() {
                    let mut v = json!({"parameters": {"cid": cid, "seq": seq, "idx": i}});
                    if let Some(c) = flag_of(*f) {
                        v["continues"] = json!(c);
                    }
                    out.push(v);
                }
                if !ends {
                    // the connection never returns to call mode: nothing behind it is owed
                    before.push(out.len());
                    return (out, before);
                }
            }
        }
    }
    before.push(out.len());
    (out, before)
}

/// Number of calls the reference service handles for this client (calls behind a never-ending
/// stream are never read).
pub fn reference_handled(calls: &[CallSpec]) -> usize {
    for (i, c) in calls.iter().enumerate() {
        if let CallSpec::Stream { ends: false, .. } = c {
            return i + 1;
        }
    }
    calls.len()
}

pub struct ConnInfo {
    pub c2s: usize,
    pub s2c: usize,
    /// Stream offset (in the client's byte stream) at which each call's frame is complete.
    pub call_end_offsets: Vec<usize>,
    /// Index of the first call affected by a fault (calls before it must be served normally);
    /// `None` = healthy.
    pub first_faulty_call: Option<usize>,
    pub write_fault: Option<usize>,
}

/// Lay a client's script onto a fresh pair of pipes and queue its connection.
pub fn install_client(world: &World, spec: &ClientSpec) -> ConnInfo {
    let mut w = world.borrow_mut();
    let c2s = if spec.after_quiet { w.new_dormant_pipe() } else { w.new_pipe() };
    let s2c = w.sink_pipe();
    let mut offset = 0usize;
    let mut ends = Vec::new();
    let mut first_faulty: Option<usize> = None;
    let mut write_fault = None;
    let mut stop = false;
    let mut close = spec.closes;
    let mut break_ = false;
    let (ref_out, before) = reference_output(spec.cid, &spec.calls);
    let _ = ref_out;
    let mut mark = |first_faulty: &mut Option<usize>, at: usize| {
        if first_faulty.map(|f| at < f).unwrap_or(true) {
            *first_faulty = Some(at);
        }
    };
    for f in &spec.faults {
        if let Fault::WriteError { kth } = f {
            w.pipes[s2c].write_err_from = Some(*kth);
            write_fault = Some(*kth);
        }
        if let Fault::WriteGlitch { kth } = f {
            if write_fault.is_none() {
                w.pipes[s2c].write_err_from = Some(*kth);
                w.pipes[s2c].write_err_until = Some(*kth + 1);
            }
        }
    }
    for (i, c) in spec.calls.iter().enumerate() {
        let mut frame = call_frame(spec.cid, i as u32, c);
        let mut prefix: Vec<u8> = Vec::new();
        for f in &spec.faults {
            match f {
                Fault::Garbage { at } if *at == i => {
                    prefix.extend_from_slice(b"\xff\xfe{]garbage");
                    prefix.push(0);
                    mark(&mut first_faulty, i);
                }
                Fault::Oversize { at, len } if *at == i => {
                    prefix.extend(std::iter::repeat(b'Z').take(*len));
                    mark(&mut first_faulty, i);
                }
                Fault::TruncatedThenEof { at, keep } if *at == i => {
                    if frame.len() >= 2 {
                        let k = (*keep).clamp(1, frame.len() - 1);
                        frame.truncate(k);
                    }
                    stop = true;
                    close = true;
                    mark(&mut first_faulty, i);
                }
                Fault::EofMidBurst { at } if *at == i => {
                    frame.clear();
                    stop = true;
                    close = true;
                    mark(&mut first_faulty, i);
                }
                Fault::ReadError { at } if *at == i => {
                    frame.clear();
                    stop = true;
                    break_ = true;
                    mark(&mut first_faulty, i);
                }
                Fault::UnknownMethod { at } if *at == i => {
                    frame = serde_json::to_vec(&json!({"method": "org.example.Nope", "parameters": {"cid": spec.cid, "seq": i}})).unwrap();
                    mark(&mut first_faulty, i);
                }
                Fault::WrongTypes { at } if *at == i => {
                    frame = serde_json::to_vec(&json!({"method": "org.example.Echo", "parameters": {"cid": "not-a-number", "seq": i, "pad": 5}})).unwrap();
                    mark(&mut first_faulty, i);
                }
                Fault::WrongShape { at } if *at == i => {
                    frame = b"[1,2,3]".to_vec();
                    mark(&mut first_faulty, i);
                }
                _ => {}
            }
        }
        let truncated = stop;
        let mut bytes = prefix;
        bytes.extend_from_slice(&frame);
        if !truncated && !frame.is_empty() {
            bytes.push(0);
        }
        // ping-pong clients wait until everything owed for the previous calls has arrived
        let gate = if spec.pingpong && i > 0 { before.get(i).map(|b| Gate { pipe: s2c, nuls: *b, counter: 0 }) } else { None };
        offset += bytes.len();
        ends.push(offset);
        if spec.pingpong || i == 0 {
            w.push_seg(c2s, &bytes, gate);
        } else {
            // same burst as the previous call
            match w.pipes[c2s].segs.back_mut() {
                Some(seg) => seg.bytes.extend(bytes.iter().copied()),
                None => w.push_seg(c2s, &bytes, None),
            }
        }
        if stop {
            break;
        }
    }
    w.pipes[c2s].close_when_done = close && !break_;
    w.pipes[c2s].break_when_done = break_;
    if spec.after_quiet {
        w.listener.pending_quiet.push_back(PendingConn { c2s, s2c, after_quiet: true });
    } else {
        w.listener.pending.push(PendingConn { c2s, s2c, after_quiet: false });
    }
    ConnInfo { c2s, s2c, call_end_offsets: ends, first_faulty_call: first_faulty, write_fault }
}

pub struct ServerRun {
    pub handled: Vec<Handled>,
    pub server_finished: bool,
}

/// A real zlink client on the other end of the simulated wire (see `real_client.rs`).
pub struct RealClient {
    pub spec: ClientSpec,
    pub prog: Vec<crate::real_client::Exch>,
    pub c2s: usize,
    pub s2c: usize,
    pub result: Rc<RefCell<crate::real_client::RealResult>>,
}

/// Pipes and pending connection for a real client (no scripted bytes: the client writes them).
pub fn install_real_client(world: &World, spec: &ClientSpec) -> ConnInfo {
    let mut w = world.borrow_mut();
    let c2s = w.new_pipe();
    let s2c = w.new_pipe();
    if spec.after_quiet {
        w.listener.pending_quiet.push_back(PendingConn { c2s, s2c, after_quiet: true });
    } else {
        w.listener.pending.push(PendingConn { c2s, s2c, after_quiet: false });
    }
    ConnInfo { c2s, s2c, call_end_offsets: Vec::new(), first_faulty_call: None, write_fault: None }
}

/// Run the real server until quiescence.
pub fn run_server(world: &World, suspends: bool) -> ServerRun {
    run_server_with(world, suspends, Vec::new())
}

/// Run the real server and the given real clients (one task each) until quiescence.
pub fn run_server_with(world: &World, suspends: bool, reals: Vec<RealClient>) -> ServerRun {
    ZST_SLOT.with(|s| *s.borrow_mut() = None);
    let v = world.borrow().svc_variant;
    let r = match v {
        1 => {
            world.borrow_mut().stat("service_instantiation.value_call_borrowing_reply_boxed_stream");
            run_server_as::<Dynamic>(world, suspends, reals)
        }
        2 => {
            world.borrow_mut().stat("service_instantiation.zero_sized_reply_stream");
            run_server_as::<ZeroSized>(world, suspends, reals)
        }
        _ => {
            world.borrow_mut().stat("service_instantiation.everyday");
            run_server_as::<Everyday>(world, suspends, reals)
        }
    };
    ZST_SLOT.with(|s| *s.borrow_mut() = None);
    r
}

fn run_server_as<V: SvcVariant>(world: &World, suspends: bool, reals: Vec<RealClient>) -> ServerRun {
    let log: Rc<RefCell<Vec<Handled>>> = Rc::new(RefCell::new(Vec::new()));
    let finished = Rc::new(RefCell::new(false));
    {
        let service = SimService::<V>::new(world.clone(), log.clone(), suspends, None);
        let server = Server::new(SimListener::new(world.clone()), service);
        let mut ex = Exec::new();
        let fin = finished.clone();
        let world2 = world.clone();
        ex.spawn(async move {
            let r = server.run().await;
            world2.borrow_mut().note(|| format!("server.run returned {r:?}"));
            *fin.borrow_mut() = true;
        });
        for rc in reals {
            // the client's read end is the server-to-client pipe and vice versa
            let conn = zlink_core::Connection::new(crate::world::W::socket(world, rc.s2c, rc.c2s));
            ex.spawn(crate::real_client::run_real_client(world.clone(), conn, rc.spec, rc.prog, rc.result));
        }
        ex.run(world);
    }
    let handled = log.borrow().clone();
    let server_finished = *finished.borrow();
    ServerRun { handled, server_finished }
}

/// Frames the server wrote to a client, as JSON values (Err = bytes that do not split into whole
/// JSON frames).
pub fn output_frames(world: &World, s2c: usize) -> Result<Vec<Value>, String> {
    let w = world.borrow();
    let log = &w.pipes[s2c].log;
    if log.is_empty() {
        return Ok(vec![]);
    }
    if log.last() != Some(&0) {
        return Err(format!("output does not end with a terminator ({} bytes)", log.len()));
    }
    let mut out = Vec::new();
    for f in log[..log.len() - 1].split(|b| *b == 0) {
        match serde_json::from_slice::<Value>(f) {
            Ok(v) => out.push(v),
            Err(e) => return Err(format!("frame is not JSON ({e}): {:?}", String::from_utf8_lossy(&f[..f.len().min(60)]))),
        }
    }
    Ok(out)
}

/// The cid a reply frame carries (every reply of the test service carries one).
pub fn cid_of(v: &Value) -> Option<u64> {
    v.get("parameters").and_then(|p| p.get("cid")).and_then(|c| c.as_u64())
}

pub fn gen_call(t: &mut Tape, allow_stream: bool, allow_oneway: bool) -> CallSpec {
    let oneway = allow_oneway && t.draw(4) == 3;
    let kinds = if allow_stream { 6 } else { 4 };
    match t.draw(kinds) {
        0 | 1 => CallSpec::Echo { pad: [0, 3, 40, 230, 300][t.draw(5)], oneway },
        2 => CallSpec::Fail { oneway },
        3 => CallSpec::Slow { polls: t.draw(4) as u32, oneway },
        5 => CallSpec::Deferred { flag: t.draw(3) as u8 },
        _ => {
            let n = t.draw(5);
            let flags = (0..n).map(|_| t.draw(3) as u8).collect();
            CallSpec::Stream { flags, ends: t.draw(4) != 3 }
        }
    }
}

pub fn describe_client(c: &ClientSpec) -> Value {
    json!({
        "cid": c.cid,
        "calls": c.calls.iter().map(|k| format!("{k:?}")).collect::<Vec<_>>(),
        "faults": c.faults.iter().map(|f| format!("{f:?}")).collect::<Vec<_>>(),
        "pingpong": c.pingpong,
        "closes": c.closes,
        "connects_after_quiet": c.after_quiet,
    })
}

impl<V: SvcVariant> std::fmt::Debug for SimService<V> {
    fn fmt(&self, f: &mut std::fmt::Formatter<'_>) -> std::fmt::Result {
        write!(f, "SimService<{}>", V::NAME)
    }
}

impl std::fmt::Debug for SvcStream {
    fn fmt(&self, f: &mut std::fmt::Formatter<'_>) -> std::fmt::Result {
        write!(f, "SvcStream({}, {})", self.cid, self.seq)
    }
}
