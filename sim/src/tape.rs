//! The choice tape: the one source of every decision a run makes.
//!
//! Generation mode: values come from a xoshiro256** generator seeded from
//! `hash(VERIF_SEED, property, run_index)` and every draw is recorded.
//! Replay mode: recorded values are played back (`value mod n`); past the end the tape yields 0.
//! 0 is always the simplest choice (no fault, deliver everything, first runnable task), which is
//! what makes the generic minimiser work without scenario-specific shrinkers.

#[derive(Clone)]
struct Xoshiro([u64; 4]);

impl Xoshiro {
    fn new(seed: u64) -> Self {
        // splitmix64 expansion of the seed.
        let mut z = seed;
        let mut s = [0u64; 4];
        for x in s.iter_mut() {
            z = z.wrapping_add(0x9E37_79B9_7F4A_7C15);
            let mut y = z;
            y = (y ^ (y >> 30)).wrapping_mul(0xBF58_476D_1CE4_E5B9);
            y = (y ^ (y >> 27)).wrapping_mul(0x94D0_49BB_1331_11EB);
            *x = y ^ (y >> 31);
        }
        Xoshiro(s)
    }
    fn next(&mut self) -> u64 {
        let s = &mut self.0;
        let r = s[1].wrapping_mul(5).rotate_left(7).wrapping_mul(9);
        let t = s[1] << 17;
        s[2] ^= s[0];
        s[3] ^= s[1];
        s[1] ^= s[2];
        s[0] ^= s[3];
        s[2] ^= t;
        s[3] = s[3].rotate_left(45);
        r
    }
}

pub fn mix(a: u64, b: u64) -> u64 {
    let mut x = a ^ b.wrapping_mul(0x9E37_79B9_7F4A_7C15);
    x = (x ^ (x >> 32)).wrapping_mul(0xD6E8_FEB8_6659_FD93);
    x = (x ^ (x >> 32)).wrapping_mul(0xD6E8_FEB8_6659_FD93);
    x ^ (x >> 32)
}

pub fn hash_str(s: &str) -> u64 {
    let mut h = 0xcbf2_9ce4_8422_2325u64;
    for b in s.bytes() {
        h ^= b as u64;
        h = h.wrapping_mul(0x1000_0000_01b3);
    }
    h
}

pub struct Tape {
    rng: Option<Xoshiro>,
    replay: Vec<u32>,
    pos: usize,
    /// Everything drawn so far (already reduced modulo the bound).
    pub rec: Vec<u32>,
    /// Number of draws that ran past the end of a replayed tape.
    pub overrun: usize,
}

impl Tape {
    pub fn generate(seed: u64) -> Self {
        Tape { rng: Some(Xoshiro::new(seed)), replay: Vec::new(), pos: 0, rec: Vec::new(), overrun: 0 }
    }

    /// A forced prefix followed by generated values (used by systematic + seeded hybrids).
    pub fn prefix_then_generate(prefix: Vec<u32>, seed: u64) -> Self {
        Tape { rng: Some(Xoshiro::new(seed)), replay: prefix, pos: 0, rec: Vec::new(), overrun: 0 }
    }

    pub fn replay(values: Vec<u32>) -> Self {
        Tape { rng: None, replay: values, pos: 0, rec: Vec::new(), overrun: 0 }
    }

    /// A value in `0..n` (`n >= 1`).
    pub fn draw(&mut self, n: usize) -> usize {
        debug_assert!(n >= 1);
        let n = n.max(1);
        let v = if self.pos < self.replay.len() {
            let v = self.replay[self.pos] as usize % n;
            self.pos += 1;
            v
        } else if let Some(rng) = self.rng.as_mut() {
            (rng.next() % n as u64) as usize
        } else {
            self.overrun += 1;
            0
        };
        self.rec.push(v as u32);
        v
    }

    /// True with probability `num/den`; the tape value 0 always means "no".
    pub fn chance(&mut self, num: usize, den: usize) -> bool {
        debug_assert!(num <= den);
        if num == 0 {
            return false;
        }
        self.draw(den) >= den - num
    }

    /// A value in `lo..=hi`.
    pub fn range(&mut self, lo: usize, hi: usize) -> usize {
        debug_assert!(lo <= hi);
        lo + self.draw(hi - lo + 1)
    }

    pub fn pick<'a, T>(&mut self, xs: &'a [T]) -> &'a T {
        &xs[self.draw(xs.len())]
    }

    /// Index chosen with the given integer weights (weight of index 0 should be non-zero).
    pub fn weighted(&mut self, weights: &[usize]) -> usize {
        let total: usize = weights.iter().sum();
        let mut v = self.draw(total.max(1));
        for (i, w) in weights.iter().enumerate() {
            if v < *w {
                return i;
            }
            v -= *w;
        }
        0
    }
}
