//! The simulated world: tape, history, pipes, listener, service streams, and the stub transports
//! that plug into zlink's existing `Socket` / `ReadHalf` / `WriteHalf` / `Listener` traits.

use crate::tape::{hash_str, mix, Tape};
use std::{
    cell::RefCell,
    collections::{BTreeMap, VecDeque},
    fmt,
    future::Future,
    pin::Pin,
    rc::Rc,
    task::{Context, Poll, Waker},
};
use zlink_core::connection::socket::{ReadHalf, Socket, WriteHalf};

pub type World = Rc<RefCell<W>>;

#[derive(Clone, Debug, PartialEq)]
pub enum Chunk {
    /// Everything that is ready in one delivery.
    Whole,
    /// One frame (up to and including the next NUL) per delivery.
    Frame,
    /// One byte per delivery.
    Byte,
    /// 1..=small random pieces.
    RandomSmall,
    /// 1..=len random pieces.
    RandomAny,
    /// Deliver up to the next absolute stream offset in the pipe's `cuts` list.
    Cuts,
}

#[derive(Clone, Debug)]
pub struct Cfg {
    pub chunk: Chunk,
    pub short_read: bool,
    pub read_pending_despite_data: bool,
    /// Every transport read future returns `Pending` on its first poll (waking itself), whether or
    /// not data is queued: a cooperative-yield transport (what tokio's budget does under load).
    pub read_yields_first: bool,
    pub spurious_poll: bool,
    pub accept_pending_despite_backlog: bool,
    pub stream_pending_despite_item: bool,
    pub write_stall: bool,
    pub seam_env: bool,
    /// 0 = environment first, 1 = fair, 2 = tasks first.
    pub bias: u8,
    /// What the process-wide `tracing` subscriber enables while this run's tasks execute
    /// (see `logsub.rs`): 0 nothing, 1 WARN, 2 everything, 3 everything and formatted.
    pub log: u8,
    /// The executor hands every poll a *new* waker and honours only the one handed to the most
    /// recent poll of a task (all that `Future::poll`'s contract promises): something that keeps
    /// the waker of an earlier poll and wakes that one is not heard.
    pub fresh_wakers: bool,
    /// The listener creates connections ahead of `accept` and hands them out newest first.
    pub listener_prepares: bool,
    /// The environment moves this thread's clock forward by tape-chosen amounts (milliseconds to
    /// hours) between polls (`clock.rs`).
    pub clock_jumps: bool,
}

impl Cfg {
    pub fn plain() -> Self {
        Cfg {
            chunk: Chunk::Whole,
            short_read: false,
            read_pending_despite_data: false,
            read_yields_first: false,
            spurious_poll: false,
            accept_pending_despite_backlog: false,
            stream_pending_despite_item: false,
            write_stall: false,
            seam_env: false,
            bias: 0,
            log: 0,
            fresh_wakers: false,
            listener_prepares: false,
            clock_jumps: false,
        }
    }

    /// Swarm configuration: each knob is drawn once per run.
    pub fn swarm(t: &mut Tape) -> Self {
        let chunk = match t.draw(6) {
            0 => Chunk::Whole,
            1 => Chunk::Frame,
            2 => Chunk::Byte,
            3 => Chunk::RandomSmall,
            4 => Chunk::RandomAny,
            _ => Chunk::RandomSmall,
        };
        Cfg {
            chunk,
            short_read: t.draw(3) == 2,
            read_pending_despite_data: t.draw(4) == 3,
            read_yields_first: t.draw(6) == 5,
            spurious_poll: t.draw(4) == 3,
            accept_pending_despite_backlog: t.draw(4) == 3,
            stream_pending_despite_item: t.draw(4) == 3,
            write_stall: t.draw(3) == 2,
            seam_env: t.draw(2) == 1,
            bias: t.draw(3) as u8,
            log: [0, 0, 0, 1, 1, 2, 3, 1][t.draw(8)],
            fresh_wakers: t.draw(3) == 2,
            listener_prepares: t.draw(4) == 3,
            clock_jumps: t.draw(4) == 3,
        }
    }
}

#[derive(Clone, Debug)]
pub struct Gate {
    /// Wait until `pipes[pipe].log` contains at least `nuls` NUL bytes ...
    pub pipe: usize,
    pub nuls: usize,
    /// ... and the harness counter `W::counter` has reached this value.
    pub counter: u64,
}

#[derive(Debug)]
pub struct Seg {
    pub bytes: VecDeque<u8>,
    pub gate: Option<Gate>,
}

#[derive(Debug, Default)]
pub struct Pipe {
    /// Bytes sent by the writer (scripted peer or a zlink write half) and not yet readable.
    pub segs: VecDeque<Seg>,
    pub readable: VecDeque<u8>,
    /// Writer closes (EOF) once the script is exhausted.
    pub close_when_done: bool,
    /// Transport fails (read error) once the script is exhausted.
    pub break_when_done: bool,
    pub eof: bool,
    pub broken: bool,
    pub reader_waker: Option<Waker>,
    pub reader_gone: bool,
    pub writer_closed: bool,
    /// Nobody reads this pipe; writes are only logged.
    pub sink: bool,
    /// Everything ever written into this pipe through a `SimWriteHalf`.
    pub log: Vec<u8>,
    pub log_nuls: usize,
    /// Length of each completed `write` call.
    pub write_lens: Vec<usize>,
    pub writes_attempted: usize,
    /// All writes with index >= this fail.
    pub write_err_from: Option<usize>,
    /// ... and index < this (None = forever).
    pub write_err_until: Option<usize>,
    /// Transient read errors: once the reader has consumed at least this many bytes, its next
    /// read fails once (and the entry is removed); data keeps flowing afterwards.
    pub read_glitch_at: Vec<usize>,
    /// Absolute stream offsets at which deliveries are cut (Chunk::Cuts).
    pub cuts: Vec<usize>,
    pub delivered: usize,
    pub total_read: usize,
    pub last_read_byte: u8,
    /// Number of transport reads that returned data.
    pub data_reads: u64,
    /// (address one past the end of the slice handed to `read`, its length) for the last read.
    pub last_read_buf_end: usize,
    /// Incremented whenever a read observes a different buffer end address than the previous
    /// read, or fills its window completely (the caller will have to grow its buffer).
    pub realloc_gen: u64,
    pub max_read_window: usize,
    pub chunk_override: Option<Chunk>,
    /// (event sequence number, total bytes delivered so far) for every delivery.
    pub deliveries: Vec<(u64, usize)>,
    /// Bounded-capacity mode (C19 tier A): at most `cap` written-but-undrained bytes; a raw peer
    /// drains them when the environment says so. Only meaningful together with `sink`.
    pub cap: Option<usize>,
    pub undrained: usize,
    pub writer_waker: Option<Waker>,
    /// Id of the zlink connection that reads this pipe (set by scenarios that watch held data):
    /// lets the read seam ask the `zlink_verif` hook where that connection's buffer lives.
    pub conn_id: Option<usize>,
    /// Base address of the reader's buffer as last confirmed at a transport read (the hook's note
    /// from the receive entry agreed with the end address of the slice handed to `read`).
    pub confirmed_base: Option<usize>,
    /// A read filled its window since the last confirmation: the reader is about to grow its
    /// buffer (or has), possibly moving it; held data must not be looked at until re-confirmed.
    pub maybe_grown: bool,
    /// A read never returns bytes beyond the first terminator it meets (a legal short read): the
    /// reader then never holds a second buffered message.
    pub read_cap_frame: bool,
    /// Bytes (frames plus terminators) the application has been handed as results so far; kept
    /// up to date by scenarios that check the memory bound.
    pub consumed_by_app: usize,
    /// Largest value of (bytes read so far - consumed_by_app + size of the window handed to a
    /// read): a lower bound on the size the reader's buffer has reached.
    pub max_unconsumed_plus_window: usize,
}

#[derive(Debug)]
pub struct PendingConn {
    pub c2s: usize,
    pub s2c: usize,
    /// Only connect once everything else is quiet (used by the after-the-fault probe connection).
    pub after_quiet: bool,
}

#[derive(Debug, Default)]
pub struct ListenerState {
    pub pending: Vec<PendingConn>,
    /// Connections that arrive one at a time, each once everything before it has settled.
    pub pending_quiet: VecDeque<PendingConn>,
    pub backlog: VecDeque<(usize, usize)>,
    pub waker: Option<Waker>,
    pub accepted: u64,
    /// Transient listener failures: once the service has handled at least this many calls, the
    /// next `accept` fails once (entry removed); the listener keeps working afterwards.
    pub accept_fail_at: Vec<u64>,
    pub accept_failures: u64,
}

#[derive(Debug, Default)]
pub struct StreamState {
    /// (payload id, continues flag) not yet produced by the service.
    pub script: VecDeque<(u64, Option<bool>)>,
    pub available: VecDeque<(u64, Option<bool>)>,
    /// The stream ends after its last item (otherwise it stays open forever).
    pub ends: bool,
    pub ended: bool,
    /// `poll_next` has returned `None`
    pub reported_end: bool,
    pub dropped: bool,
    pub created: bool,
    pub waker: Option<Waker>,
    /// Items with index >= `gate_from` are only produced once `gate` holds (an item that is
    /// triggered by another client's call having been served, as with a notified state).
    pub gate_from: usize,
    pub gate: Option<Gate>,
    pub produced: usize,
}

#[derive(Clone, Debug, PartialEq)]
pub enum CancelPlan {
    Never,
    /// Cancel with probability num/den at each pending poll.
    Prob(usize, usize),
    /// Cancel at every k-th pending poll (k >= 1).
    EveryKth(usize),
}

/// A region of memory (inside the buffer zlink hands to the read seam) that a held, borrowed
/// value points to. Checked at every transport read: intact before the read copies its data;
/// marked `clobbered` when the read's own data (or the end-of-data sentinel behind it) lands on it.
#[derive(Debug)]
pub struct Watch {
    pub pipe: usize,
    pub ptr: usize,
    pub len: usize,
    pub expect: Vec<u8>,
    /// Base of the buffer allocation the region lives in; bound at the first confirmed transport
    /// read after the item was yielded (nothing runs in zlink between the yield and that point).
    pub base: Option<usize>,
    /// Length of the buffer when the region was bound. A longer buffer later on means the reader
    /// grew it while the item was held — the verdict is taken from that (deterministic) fact, not
    /// from whether the allocator happened to move the block.
    pub len_at_bind: usize,
    /// The buffer was grown or seen at another address since: the region may be stale memory and
    /// is never looked at again.
    pub moved: bool,
    /// A transport read returned data while the region was held and before it moved.
    pub data_read_since: bool,
    pub clobbered: bool,
    pub label: usize,
}

impl Watch {
    pub fn new(pipe: usize, text: &str, label: usize) -> Watch {
        Watch { pipe, ptr: text.as_ptr() as usize, len: text.len(), expect: text.as_bytes().to_vec(), base: None, len_at_bind: 0, moved: false, data_read_since: false, clobbered: false, label }
    }
}

pub struct W {
    pub tape: Tape,
    pub cfg: Cfg,
    pub hash: u64,
    pub sig: u64,
    pub seq: u64,
    pub steps: u64,
    pub step_cap: u64,
    pub env_events: u64,
    pub bytes_moved: u64,
    pub nontrivial: bool,
    pub trace: Option<Vec<String>>,
    pub stats: BTreeMap<&'static str, u64>,
    pub pipes: Vec<Pipe>,
    pub listener: ListenerState,
    pub streams: Vec<StreamState>,
    pub cancel: CancelPlan,
    pub pending_polls: u64,
    pub cancelled_this_poll: bool,
    pub cancels: u64,
    /// Free-running counter a harness task may advance; gates can wait for it.
    pub counter: u64,
    /// Sequence numbers at which the set of connections the server reads calls from changed
    /// (accept, connection dropped, stream started, stream ended).
    pub set_changes: Vec<u64>,
    /// (sequence number, client-to-server pipe) of every accept.
    pub accepts: Vec<(u64, usize)>,
    /// (sequence number, pipe) of every dropped read half.
    pub read_half_drops: Vec<(u64, usize)>,
    /// Connection ids handed out by zlink for accepted connections.
    pub conn_ids: Vec<usize>,
    /// First violation detected by an in-run invariant (class, message).
    pub fail: Option<(String, String)>,
    /// Which error value the stub transports report when a fault fires (drawn from the tape at
    /// the first fault of the run; 0 = ConnectionReset for reads, BrokenPipe for writes).
    pub err_kind: Option<u8>,
    pub watches: Vec<Watch>,
    /// Class reported when a watched region changes although no transport read wrote to it.
    pub watch_class: &'static str,
    /// Class reported when the buffer holding a watched region moved after a transport read ...
    pub watch_moved_class: &'static str,
    /// ... and when it moved although no transport read returned data since the item was yielded.
    pub watch_moved_without_read_class: &'static str,
    /// Human-readable description of the scenario (filled in when a sample / trace is wanted).
    pub scenario: Option<serde_json::Value>,
    pub want_sample: bool,
    pub tick_sites: BTreeMap<&'static str, u64>,
    /// Pipes that may still produce environment events (everything else is skipped: worlds with
    /// thousands of short-lived connections would otherwise scan every pipe at every step).
    pub live_pipes: Vec<usize>,
    /// Streams that may still produce environment events.
    pub live_streams: Vec<usize>,
    /// What the service's reply streams report as `size_hint`: 0 = the default `(0, None)`,
    /// 1 = the exact number of items still to come, 2 = "at least one" while items remain.
    pub stream_size_hint: u8,
    /// (cid, seq, first gated item, gate): the reply stream the service creates for that call
    /// produces its later items only once the gate holds.
    pub stream_gates: Vec<(u32, u32, usize, Gate)>,
    /// (cid, seq) of calls whose reply stream has all its items ready from the start (a stream
    /// that never returns `Pending` until it is exhausted).
    pub eager_streams: Vec<(u32, u32)>,
    /// Per-run knob: every reply stream of this world has all its items - and its end - ready from
    /// the start (an empty one reports `None` on its very first poll).
    pub eager_all: bool,
    /// Which instantiation of the `Service` trait's associated types the server world uses
    /// (0 everyday, 1 dynamic, 2 zero-sized stream).
    pub svc_variant: u8,
    /// Event numbers at which a service stream handed an item to the server.
    pub stream_item_seqs: Vec<u64>,
}

pub const STEP_CAP_PANIC: &str = "ZSIM_STEP_CAP";

#[derive(Clone, Copy, Debug)]
enum EnvAct {
    Deliver(usize),
    Close(usize),
    Break(usize),
    Connect(usize),
    ConnectQuiet,
    Item(usize),
    End(usize),
    Drain(usize),
}

impl W {
    pub fn new(tape: Tape, trace: bool) -> World {
        Rc::new(RefCell::new(W {
            tape,
            cfg: Cfg::plain(),
            hash: 0,
            sig: 0,
            seq: 0,
            steps: 0,
            step_cap: 200_000,
            env_events: 0,
            bytes_moved: 0,
            nontrivial: false,
            trace: if trace { Some(Vec::new()) } else { None },
            stats: BTreeMap::new(),
            pipes: Vec::new(),
            listener: ListenerState::default(),
            streams: Vec::new(),
            cancel: CancelPlan::Never,
            pending_polls: 0,
            cancelled_this_poll: false,
            cancels: 0,
            counter: 0,
            set_changes: Vec::new(),
            accepts: Vec::new(),
            read_half_drops: Vec::new(),
            conn_ids: Vec::new(),
            fail: None,
            err_kind: None,
            eager_all: false,
            svc_variant: 0,
            watches: Vec::new(),
            watch_class: "watch/changed-without-transport-read",
            watch_moved_class: "watch/reallocated-by-later-transport-read",
            watch_moved_without_read_class: "watch/reallocated-without-transport-read",
            scenario: None,
            want_sample: trace,
            tick_sites: BTreeMap::new(),
            live_pipes: Vec::new(),
            live_streams: Vec::new(),
            stream_size_hint: 0,
            stream_gates: Vec::new(),
            eager_streams: Vec::new(),
            stream_item_seqs: Vec::new(),
        }))
    }

    pub fn ev(&mut self, kind: &'static str, a: u64, b: u64) {
        self.seq += 1;
        let k = hash_str(kind);
        self.hash = mix(mix(mix(self.hash, k), a), b);
        self.sig = mix(mix(self.sig, k), a);
        if let Some(t) = self.trace.as_mut() {
            t.push(format!("{:>5} {} {} {}", self.seq, kind, a, b));
        }
    }

    pub fn note(&mut self, f: impl FnOnce() -> String) {
        if self.trace.is_some() {
            let s = f();
            self.seq += 0;
            self.trace.as_mut().unwrap().push(format!("      # {s}"));
        }
    }

    pub fn stat(&mut self, k: &'static str) {
        *self.stats.entry(k).or_insert(0) += 1;
    }

    pub fn stat_add(&mut self, k: &'static str, n: u64) {
        *self.stats.entry(k).or_insert(0) += n;
    }

    pub fn set_fail(&mut self, class: &str, msg: String) {
        if self.fail.is_none() {
            self.fail = Some((class.to_string(), msg));
        }
    }

    pub fn tick(&mut self) {
        self.tick_at("other")
    }

    /// The error value a stub transport reports for an injected fault. Real transports surface
    /// many kinds (and zlink has its own `SocketRead` / `SocketWrite` for no-std transports); which
    /// one this run's faults carry is a per-run draw, made when the first fault fires.
    pub fn transport_error(&mut self, read: bool) -> zlink_core::Error {
        use std::io::ErrorKind as K;
        let k = match self.err_kind {
            Some(k) => k,
            None => {
                let k = match self.tape.draw(3) {
                    0 | 1 => 0,
                    _ => 1 + self.tape.draw(8) as u8,
                };
                self.err_kind = Some(k);
                k
            }
        };
        let io = |kind: K| zlink_core::Error::Io(std::io::Error::new(kind, if read { "simulated read error" } else { "simulated write error" }));
        match k {
            0 => io(if read { K::ConnectionReset } else { K::BrokenPipe }),
            1 => {
                self.stat("fault.error_kind_interrupted");
                io(K::Interrupted)
            }
            2 => io(K::TimedOut),
            3 => io(K::WouldBlock),
            4 => io(K::ConnectionAborted),
            5 => {
                self.stat("fault.error_kind_zlink_socket_variant");
                if read { zlink_core::Error::SocketRead } else { zlink_core::Error::SocketWrite }
            }
            6 => io(K::UnexpectedEof),
            // a transport of its own kind (a bounded queue, a fixed-frame link) may turn a write down
            // with any of the library's error values
            8 if !read => {
                self.stat("fault.error_kind_zlink_buffer_overflow_from_the_transport");
                zlink_core::Error::BufferOverflow
            }
            _ => io(K::Other),
        }
    }

    /// One step of logical time, attributed to the seam that took it (shown when a run hits its
    /// step cap, to tell a livelock from a cap that is simply too low for the scenario).
    pub fn tick_at(&mut self, site: &'static str) {
        self.steps += 1;
        *self.tick_sites.entry(site).or_insert(0) += 1;
        if self.steps > self.step_cap {
            std::panic::panic_any(STEP_CAP_PANIC);
        }
    }

    pub fn new_pipe(&mut self) -> usize {
        self.pipes.push(Pipe::default());
        self.live_pipes.push(self.pipes.len() - 1);
        self.pipes.len() - 1
    }

    /// A pipe whose bytes stay put until `wake_pipe` (its connection has not been made yet).
    pub fn new_dormant_pipe(&mut self) -> usize {
        self.pipes.push(Pipe::default());
        self.pipes.len() - 1
    }

    pub fn wake_pipe(&mut self, p: usize) {
        if !self.live_pipes.contains(&p) {
            self.live_pipes.push(p);
        }
    }

    pub fn new_stream(&mut self, st: StreamState) -> usize {
        self.streams.push(st);
        self.live_streams.push(self.streams.len() - 1);
        self.streams.len() - 1
    }

    fn pipe_is_dead(p: &Pipe) -> bool {
        (p.sink && p.cap.is_none()) || p.reader_gone || p.eof || p.broken
    }

    /// A pipe pre-loaded with a scripted peer's bytes.
    pub fn scripted_pipe(&mut self, bytes: &[u8], close_when_done: bool) -> usize {
        let p = self.new_pipe();
        if !bytes.is_empty() {
            self.pipes[p].segs.push_back(Seg { bytes: bytes.iter().copied().collect(), gate: None });
        }
        self.pipes[p].close_when_done = close_when_done;
        p
    }

    pub fn push_seg(&mut self, pipe: usize, bytes: &[u8], gate: Option<Gate>) {
        if bytes.is_empty() {
            return;
        }
        self.pipes[pipe].segs.push_back(Seg { bytes: bytes.iter().copied().collect(), gate });
    }

    pub fn sink_pipe(&mut self) -> usize {
        let p = self.new_pipe();
        self.pipes[p].sink = true;
        p
    }

    pub fn socket(world: &World, rd: usize, wr: usize) -> SimSocket {
        SimSocket { world: world.clone(), rd, wr }
    }

    fn gate_ok(&self, g: &Option<Gate>) -> bool {
        match g {
            None => true,
            Some(g) => self.pipes[g.pipe].log_nuls >= g.nuls && self.counter >= g.counter,
        }
    }

    fn env_acts(&self, idle: bool, out: &mut Vec<EnvAct>) {
        out.clear();
        for &i in self.live_pipes.iter() {
            let p = &self.pipes[i];
            if p.sink && p.cap.is_some() && p.undrained > 0 {
                out.push(EnvAct::Drain(i));
            }
            if p.sink || p.reader_gone || p.eof || p.broken {
                continue;
            }
            if let Some(seg) = p.segs.front() {
                if self.gate_ok(&seg.gate) {
                    out.push(EnvAct::Deliver(i));
                }
            } else if p.break_when_done {
                out.push(EnvAct::Break(i));
            } else if p.close_when_done || p.writer_closed {
                out.push(EnvAct::Close(i));
            }
        }
        for &i in self.live_streams.iter() {
            let s = &self.streams[i];
            if !s.created || s.dropped || s.ended {
                continue;
            }
            if !s.script.is_empty() {
                if s.produced < s.gate_from || self.gate_ok(&s.gate) {
                    out.push(EnvAct::Item(i));
                }
            } else if s.ends {
                out.push(EnvAct::End(i));
            }
        }
        for (i, _) in self.listener.pending.iter().enumerate() {
            out.push(EnvAct::Connect(i));
        }
        // after-quiet connections arrive one at a time, in the order they were queued
        if out.is_empty() && idle && !self.listener.pending_quiet.is_empty() {
            out.push(EnvAct::ConnectQuiet);
        }
    }

    pub fn env_count(&self, idle: bool) -> usize {
        let mut v = Vec::new();
        self.env_acts(idle, &mut v);
        v.len()
    }

    /// Apply one environment event chosen by the tape. Returns false if none was available.
    pub fn env_step(&mut self, idle: bool) -> bool {
        if self.live_pipes.len() > 8 {
            let pipes = &self.pipes;
            self.live_pipes.retain(|i| !Self::pipe_is_dead(&pipes[*i]));
        }
        if self.live_streams.len() > 8 {
            let streams = &self.streams;
            self.live_streams.retain(|i| !(streams[*i].dropped || streams[*i].ended));
        }
        let mut acts = Vec::new();
        self.env_acts(idle, &mut acts);
        if acts.is_empty() {
            return false;
        }
        let k = if acts.len() == 1 { 0 } else { self.tape.draw(acts.len()) };
        self.env_events += 1;
        match acts[k] {
            EnvAct::Deliver(p) => self.deliver(p),
            EnvAct::Close(p) => {
                self.pipes[p].eof = true;
                self.ev("env.close", p as u64, 0);
                if let Some(w) = self.pipes[p].reader_waker.take() {
                    w.wake();
                }
            }
            EnvAct::Break(p) => {
                self.pipes[p].broken = true;
                self.stat("fault.read_error");
                self.nontrivial = true;
                self.ev("env.break", p as u64, 0);
                if let Some(w) = self.pipes[p].reader_waker.take() {
                    w.wake();
                }
            }
            EnvAct::Connect(_) | EnvAct::ConnectQuiet => {
                let c = match acts[k] {
                    EnvAct::Connect(i) => self.listener.pending.remove(i),
                    _ => self.listener.pending_quiet.pop_front().unwrap(),
                };
                self.wake_pipe(c.c2s);
                self.wake_pipe(c.s2c);
                self.listener.backlog.push_back((c.c2s, c.s2c));
                self.ev("env.connect", c.c2s as u64, 0);
                if let Some(w) = self.listener.waker.take() {
                    w.wake();
                }
            }
            EnvAct::Item(s) => {
                let it = self.streams[s].script.pop_front().unwrap();
                self.streams[s].available.push_back(it);
                self.streams[s].produced += 1;
                self.ev("env.item", s as u64, it.0);
                if let Some(w) = self.streams[s].waker.take() {
                    w.wake();
                }
            }
            EnvAct::Drain(p) => {
                let have = self.pipes[p].undrained;
                let n = match self.tape.draw(4) {
                    0 => have,
                    1 => 1,
                    2 => 1 + self.tape.draw(have.min(16)),
                    _ => 1 + self.tape.draw(have),
                };
                self.pipes[p].undrained -= n;
                self.bytes_moved += n as u64;
                self.ev("env.drain", p as u64, n as u64);
                if let Some(w) = self.pipes[p].writer_waker.take() {
                    w.wake();
                }
            }
            EnvAct::End(s) => {
                self.streams[s].ended = true;
                self.ev("env.end", s as u64, 0);
                if let Some(w) = self.streams[s].waker.take() {
                    w.wake();
                }
            }
        }
        true
    }

    fn deliver(&mut self, p: usize) {
        let style = self.pipes[p].chunk_override.clone().unwrap_or_else(|| self.cfg.chunk.clone());
        let seg_len = self.pipes[p].segs.front().unwrap().bytes.len();
        let n = match style {
            Chunk::Whole => seg_len,
            Chunk::Frame => {
                let seg = self.pipes[p].segs.front().unwrap();
                match seg.bytes.iter().position(|b| *b == 0) {
                    Some(i) => i + 1,
                    None => seg_len,
                }
            }
            Chunk::Byte => 1,
            Chunk::RandomSmall => 1 + self.tape.draw(seg_len.min(8)),
            Chunk::RandomAny => {
                // Half the time land near a frame boundary, which is where the interesting
                // states are; otherwise anywhere.
                let seg = self.pipes[p].segs.front().unwrap();
                let nul = seg.bytes.iter().position(|b| *b == 0);
                match (self.tape.draw(4), nul) {
                    (1, Some(i)) if i >= 1 => i,          // just before the terminator
                    (2, Some(i)) => i + 1,                  // exactly the frame
                    (3, Some(i)) if i + 2 <= seg_len => i + 2, // frame + 1 byte of the next
                    _ => 1 + self.tape.draw(seg_len),
                }
            }
            Chunk::Cuts => {
                let pos = self.pipes[p].delivered;
                let next = self.pipes[p].cuts.iter().copied().filter(|c| *c > pos).min();
                match next {
                    Some(c) => (c - pos).min(seg_len),
                    None => seg_len,
                }
            }
        };
        // Inside a big frame (tens of kB and more) the byte-sized styles jump ahead in random strides
        // and return to their own pace for the last few hundred bytes before the terminator:
        // the interesting states are near frame ends and at arbitrary offsets of the payload, not
        // at each of a million consecutive offsets.
        let n = if matches!(style, Chunk::Byte | Chunk::RandomSmall) && seg_len > 2048 {
            let seg = self.pipes[p].segs.front().unwrap();
            let to_nul = seg.bytes.iter().position(|b| *b == 0).unwrap_or(seg_len);
            if to_nul > 600 {
                // (tape value 0 = the longest stride: a tape that has run out jumps straight to the
                // last 300 bytes instead of crawling through the payload)
                (to_nul - 300) - self.tape.draw(to_nul - 300)
            } else {
                n
            }
        } else {
            n
        };
        let n = n.clamp(1, seg_len);
        if n < seg_len {
            self.nontrivial = true;
            self.stat("frag.partial_delivery");
        }
        let pipe = &mut self.pipes[p];
        let seg = pipe.segs.front_mut().unwrap();
        for _ in 0..n {
            let b = seg.bytes.pop_front().unwrap();
            pipe.readable.push_back(b);
        }
        if seg.bytes.is_empty() {
            pipe.segs.pop_front();
        }
        pipe.delivered += n;
        self.bytes_moved += n as u64;
        self.ev("env.deliver", p as u64, n as u64);
        let (sq, d) = (self.seq, self.pipes[p].delivered);
        self.pipes[p].deliveries.push((sq, d));
        if let Some(w) = self.pipes[p].reader_waker.take() {
            w.wake();
        }
    }

    /// Environment events that land *inside* a seam call, i.e. between two iterations of a loop
    /// that does not return to the executor in between.
    pub fn seam_env(&mut self) {
        if !self.cfg.seam_env {
            return;
        }
        let mut n = 0;
        while n < 3 && self.tape.chance(1, 3) {
            if !self.env_step(false) {
                break;
            }
            self.stat("env.inside_seam_call");
            n += 1;
        }
    }

    /// Should the future that just returned `Pending` be dropped now?
    pub fn decide_cancel(&mut self) -> bool {
        self.pending_polls += 1;
        if self.cancelled_this_poll {
            return false;
        }
        let c = match self.cancel {
            CancelPlan::Never => false,
            CancelPlan::Prob(n, d) => self.tape.chance(n, d),
            CancelPlan::EveryKth(k) => self.pending_polls % (k as u64) == 0,
        };
        if c {
            self.cancelled_this_poll = true;
            self.cancels += 1;
            self.nontrivial = true;
            self.stat("fault.cancel_future_at_pending_poll");
            self.ev("cancel", self.pending_polls, 0);
        }
        c
    }
}

/// Poll `fut`; at each `Pending` the tape may decide to abandon it (returns `None`, `fut` dropped).
pub async fn cancellable<F: Future>(world: &World, fut: F) -> Option<F::Output> {
    let mut fut = std::pin::pin!(fut);
    std::future::poll_fn(|cx| match fut.as_mut().poll(cx) {
        Poll::Ready(v) => Poll::Ready(Some(v)),
        Poll::Pending => {
            if world.borrow_mut().decide_cancel() {
                Poll::Ready(None)
            } else {
                Poll::Pending
            }
        }
    })
    .await
}

/// Suspend `n` times, self-waking (a service that takes a while, legal for any future).
pub async fn yield_n(world: &World, n: usize) {
    let mut left = n;
    std::future::poll_fn(|cx| {
        {
            let mut w = world.borrow_mut();
            w.tick_at("service yield");
            w.seam_env();
        }
        if left == 0 {
            Poll::Ready(())
        } else {
            left -= 1;
            cx.waker().wake_by_ref();
            Poll::Pending
        }
    })
    .await
}

// ---------------------------------------------------------------------------------------------
// Stub transport

pub struct SimSocket {
    pub world: World,
    pub rd: usize,
    pub wr: usize,
}

impl fmt::Debug for SimSocket {
    fn fmt(&self, f: &mut fmt::Formatter<'_>) -> fmt::Result {
        write!(f, "SimSocket(rd={}, wr={})", self.rd, self.wr)
    }
}

impl Socket for SimSocket {
    type ReadHalf = SimReadHalf;
    type WriteHalf = SimWriteHalf;
    fn split(self) -> (SimReadHalf, SimWriteHalf) {
        (
            SimReadHalf { world: self.world.clone(), pipe: self.rd },
            SimWriteHalf { world: self.world, pipe: self.wr },
        )
    }
}

pub struct SimReadHalf {
    pub world: World,
    pub pipe: usize,
}

impl fmt::Debug for SimReadHalf {
    fn fmt(&self, f: &mut fmt::Formatter<'_>) -> fmt::Result {
        write!(f, "SimReadHalf({})", self.pipe)
    }
}

impl Drop for SimReadHalf {
    fn drop(&mut self) {
        if let Ok(mut w) = self.world.try_borrow_mut() {
            w.pipes[self.pipe].reader_gone = true;
            w.ev("drop.read_half", self.pipe as u64, 0);
            let sq = w.seq;
            w.set_changes.push(sq);
            w.read_half_drops.push((sq, self.pipe));
        }
    }
}

pub struct ReadFut<'a> {
    half: &'a mut SimReadHalf,
    buf: &'a mut [u8],
    polled_pending: bool,
    yielded: bool,
    done: bool,
}

impl Future for ReadFut<'_> {
    type Output = zlink_core::Result<usize>;
    fn poll(mut self: Pin<&mut Self>, cx: &mut Context<'_>) -> Poll<Self::Output> {
        let this = &mut *self;
        let world = this.half.world.clone();
        let mut w = world.borrow_mut();
        let p = this.half.pipe;
        w.tick_at("transport read poll");
        w.seam_env();
        if this.buf.is_empty() {
            // A zero-length read is a caller bug: a stream transport would report 0 = EOF.
            w.stat("probe.zero_length_read");
            this.done = true;
            return Poll::Ready(Ok(0));
        }
        let window = this.buf.len();
        if w.cfg.read_yields_first && !this.yielded {
            this.yielded = true;
            w.stat("buggify.read_yields_on_first_poll");
            w.nontrivial = true;
            w.ev("read.yield_first", p as u64, 0);
            this.polled_pending = true;
            cx.waker().wake_by_ref();
            return Poll::Pending;
        }
        {
            let pipe = &mut w.pipes[p];
            let need = pipe.total_read.saturating_sub(pipe.consumed_by_app) + window;
            if need > pipe.max_unconsumed_plus_window {
                pipe.max_unconsumed_plus_window = need;
            }
            let end = this.buf.as_ptr() as usize + window;
            if pipe.last_read_buf_end != end {
                pipe.realloc_gen += 1;
            }
            pipe.last_read_buf_end = end;
            if window > pipe.max_read_window {
                pipe.max_read_window = window;
            }
        }
        if !w.watches.is_empty() {
            // Where does the reader's buffer live right now? The hook's note was taken when this
            // receive started; it is current iff the buffer has not been grown since, i.e. iff
            // its end is the end of the slice we were just handed.
            let end = this.buf.as_ptr() as usize + window;
            let confirmed = w.pipes[p]
                .conn_id
                .and_then(zlink_core::connection::verif_hooks::read_buffer_of)
                .filter(|(b, l)| b + l == end)
                .map(|(b, l)| (b, l));
            if let Some((base, len)) = confirmed {
                w.pipes[p].confirmed_base = Some(base);
                w.pipes[p].maybe_grown = false;
                let mut bad: Option<(bool, String)> = None;
                for wt in w.watches.iter_mut().filter(|wt| wt.pipe == p && !wt.moved) {
                    let inside = wt.ptr >= base && wt.ptr + wt.len <= base + len;
                    let verdict: Option<&str> = match wt.base {
                        None if inside => {
                            wt.base = Some(base);
                            wt.len_at_bind = len;
                            None
                        }
                        None => Some("is not inside the receive buffer's allocation at the first transport read after it was yielded"),
                        Some(_) if len > wt.len_at_bind => Some("is still held while the receive buffer has been grown (and possibly moved) to fit later data"),
                        Some(b) if b == base && inside => None,
                        Some(_) => Some("points outside the receive buffer's current allocation although the buffer was not grown"),
                    };
                    if let Some(why) = verdict {
                        wt.moved = true;
                        if bad.is_none() {
                            bad = Some((wt.data_read_since, format!("held item {} {why}: the buffer was reallocated while the item was held", wt.label)));
                        }
                        continue;
                    }
                    if wt.clobbered {
                        continue;
                    }
                    // SAFETY: the region lies inside the live allocation [base, base+len) that the
                    // reader reported at the start of this receive and has not grown since.
                    let now = unsafe { std::slice::from_raw_parts(wt.ptr as *const u8, wt.len) };
                    if now != &wt.expect[..] && bad.is_none() {
                        bad = Some((
                            false,
                            format!(
                                "held item {} read {:?} when it was yielded and reads {:?} at the start of a later transport read, before that read wrote anything and although no earlier read touched these bytes",
                                wt.label,
                                String::from_utf8_lossy(&wt.expect[..wt.expect.len().min(80)]),
                                String::from_utf8_lossy(&now[..now.len().min(80)])
                            ),
                        ));
                    }
                }
                if let Some((after_data_read, msg)) = bad {
                    let class = if msg.contains("the buffer was reallocated while the item was held") {
                        if after_data_read {
                            w.watch_moved_class
                        } else {
                            w.watch_moved_without_read_class
                        }
                    } else {
                        w.watch_class
                    };
                    w.set_fail(class, msg);
                }
            }
        }
        if matches!(w.pipes[p].read_glitch_at.first(), Some(at) if w.pipes[p].total_read >= *at) {
            // a transient failure: this read reports an error, the byte stream goes on afterwards
            w.pipes[p].read_glitch_at.remove(0);
            w.stat("fault.transient_read_error");
            w.nontrivial = true;
            w.ev("read.glitch", p as u64, 0);
            this.done = true;
            let e = w.transport_error(true);
            return Poll::Ready(Err(e));
        }
        if !w.pipes[p].readable.is_empty() {
            if w.cfg.read_pending_despite_data && w.tape.chance(1, 4) {
                w.stat("buggify.read_pending_despite_data");
                w.nontrivial = true;
                w.ev("read.pending_despite_data", p as u64, 0);
                this.polled_pending = true;
                cx.waker().wake_by_ref();
                return Poll::Pending;
            }
            let mut avail = w.pipes[p].readable.len().min(window);
            if let Some(at) = w.pipes[p].read_glitch_at.first() {
                // reads stop at the offset where the next transient failure is due
                avail = avail.min(at.saturating_sub(w.pipes[p].total_read)).max(1);
            }
            if w.pipes[p].read_cap_frame {
                if let Some(i) = w.pipes[p].readable.iter().take(avail).position(|b| *b == 0) {
                    avail = i + 1;
                }
            }
            let n = if w.cfg.short_read && avail > 1 && w.tape.chance(1, 3) {
                w.stat("buggify.short_read");
                w.nontrivial = true;
                1 + w.tape.draw(avail - 1)
            } else {
                avail
            };
            let pipe = &mut w.pipes[p];
            for slot in this.buf[..n].iter_mut() {
                *slot = pipe.readable.pop_front().unwrap();
            }
            pipe.total_read += n;
            pipe.last_read_byte = this.buf[n - 1];
            pipe.data_reads += 1;
            crate::alloc_watch::note_data_read();
            if n == window {
                pipe.realloc_gen += 1;
                pipe.maybe_grown = true;
            }
            // the bytes this read wrote, plus the end-of-data sentinel the caller plants behind them
            let (lo, hi) = (this.buf.as_ptr() as usize, this.buf.as_ptr() as usize + n + 1);
            for wt in w.watches.iter_mut().filter(|wt| wt.pipe == p && !wt.moved) {
                wt.data_read_since = true;
                if wt.ptr < hi && lo < wt.ptr + wt.len {
                    wt.clobbered = true;
                }
            }
            w.ev("read", p as u64, n as u64);
            this.done = true;
            return Poll::Ready(Ok(n));
        }
        if w.pipes[p].broken {
            w.ev("read.err", p as u64, 0);
            this.done = true;
            let e = w.transport_error(true);
            return Poll::Ready(Err(e));
        }
        if w.pipes[p].eof {
            w.ev("read.eof", p as u64, 0);
            this.done = true;
            return Poll::Ready(Ok(0));
        }
        w.pipes[p].reader_waker = Some(cx.waker().clone());
        if !this.polled_pending {
            w.ev("read.pending", p as u64, 0);
        }
        this.polled_pending = true;
        Poll::Pending
    }
}

impl Drop for ReadFut<'_> {
    fn drop(&mut self) {
        if !self.done && self.polled_pending {
            if let Ok(mut w) = self.half.world.try_borrow_mut() {
                let p = self.half.pipe;
                w.stat("probe.read_future_dropped_while_pending");
                if w.pipes[p].total_read > 0 && w.pipes[p].last_read_byte != 0 {
                    w.stat("probe.read_future_dropped_with_partial_frame_buffered");
                }
                w.ev("drop.read_fut", p as u64, 0);
            }
        }
    }
}

impl ReadHalf for SimReadHalf {
    async fn read(&mut self, buf: &mut [u8]) -> zlink_core::Result<usize> {
        ReadFut { half: self, buf, polled_pending: false, yielded: false, done: false }.await
    }
}

pub struct SimWriteHalf {
    pub world: World,
    pub pipe: usize,
}

impl fmt::Debug for SimWriteHalf {
    fn fmt(&self, f: &mut fmt::Formatter<'_>) -> fmt::Result {
        write!(f, "SimWriteHalf({})", self.pipe)
    }
}

impl Drop for SimWriteHalf {
    fn drop(&mut self) {
        if let Ok(mut w) = self.world.try_borrow_mut() {
            let p = self.pipe;
            w.pipes[p].writer_closed = true;
            w.ev("drop.write_half", p as u64, 0);
            if let Some(wk) = w.pipes[p].reader_waker.take() {
                wk.wake();
            }
        }
    }
}

pub struct WriteFut<'a> {
    half: &'a mut SimWriteHalf,
    buf: &'a [u8],
    stall: Option<usize>,
    index: Option<usize>,
    done: bool,
}

impl Future for WriteFut<'_> {
    type Output = zlink_core::Result<()>;
    fn poll(mut self: Pin<&mut Self>, cx: &mut Context<'_>) -> Poll<Self::Output> {
        let this = &mut *self;
        let world = this.half.world.clone();
        let mut w = world.borrow_mut();
        let p = this.half.pipe;
        w.tick_at("transport write poll");
        w.seam_env();
        if this.index.is_none() {
            this.index = Some(w.pipes[p].writes_attempted);
            w.pipes[p].writes_attempted += 1;
        }
        let idx = this.index.unwrap();
        let fails = (matches!(w.pipes[p].write_err_from, Some(k) if idx >= k)
            && !matches!(w.pipes[p].write_err_until, Some(u) if idx >= u))
            || (!w.pipes[p].sink && w.pipes[p].reader_gone);
        if fails {
            w.stat("fault.write_error");
            w.nontrivial = true;
            w.ev("write.err", p as u64, idx as u64);
            this.done = true;
            let e = w.transport_error(false);
            return Poll::Ready(Err(e));
        }
        if this.stall.is_none() {
            this.stall = Some(if w.cfg.write_stall && w.tape.chance(1, 3) {
                1 + w.tape.draw(3)
            } else {
                0
            });
        }
        if let Some(n) = this.stall {
            if n > 0 {
                this.stall = Some(n - 1);
                w.stat("buggify.write_stall");
                w.nontrivial = true;
                w.ev("write.pending", p as u64, idx as u64);
                cx.waker().wake_by_ref();
                return Poll::Pending;
            }
        }
        let nuls = this.buf.iter().filter(|b| **b == 0).count();
        let pipe = &mut w.pipes[p];
        pipe.log.extend_from_slice(this.buf);
        pipe.log_nuls += nuls;
        pipe.write_lens.push(this.buf.len());
        if !pipe.sink {
            pipe.segs.push_back(Seg { bytes: this.buf.iter().copied().collect(), gate: None });
        }
        w.ev("write", p as u64, this.buf.len() as u64);
        this.done = true;
        Poll::Ready(Ok(()))
    }
}

impl Drop for WriteFut<'_> {
    fn drop(&mut self) {
        if !self.done && self.index.is_some() {
            if let Ok(mut w) = self.half.world.try_borrow_mut() {
                w.stat("probe.write_future_dropped_while_pending");
                w.ev("drop.write_fut", self.half.pipe as u64, 0);
            }
        }
    }
}

impl WriteHalf for SimWriteHalf {
    async fn write(&mut self, buf: &[u8]) -> zlink_core::Result<()> {
        WriteFut { half: self, buf, stall: None, index: None, done: false }.await
    }
}

// ---------------------------------------------------------------------------------------------
// Bounded pipe with partial writes (C19 tier A). The write half runs the same write-all loop as the
// transport crates (`while pos < len { pos += write_some(&buf[pos..]).await? }`) over a
// primitive that accepts at most the free capacity, so write progress lives inside the future.

pub struct PSocket {
    pub world: World,
    pub rd: usize,
    pub wr: usize,
}

impl fmt::Debug for PSocket {
    fn fmt(&self, f: &mut fmt::Formatter<'_>) -> fmt::Result {
        write!(f, "PSocket(rd={}, wr={})", self.rd, self.wr)
    }
}

impl Socket for PSocket {
    type ReadHalf = SimReadHalf;
    type WriteHalf = PWriteHalf;
    fn split(self) -> (SimReadHalf, PWriteHalf) {
        (
            SimReadHalf { world: self.world.clone(), pipe: self.rd },
            PWriteHalf { world: self.world, pipe: self.wr },
        )
    }
}

pub struct PWriteHalf {
    pub world: World,
    pub pipe: usize,
}

impl fmt::Debug for PWriteHalf {
    fn fmt(&self, f: &mut fmt::Formatter<'_>) -> fmt::Result {
        write!(f, "PWriteHalf({})", self.pipe)
    }
}

struct WriteSome<'a> {
    world: &'a World,
    pipe: usize,
    buf: &'a [u8],
}

impl Future for WriteSome<'_> {
    type Output = zlink_core::Result<usize>;
    fn poll(self: Pin<&mut Self>, cx: &mut Context<'_>) -> Poll<Self::Output> {
        let mut w = self.world.borrow_mut();
        let p = self.pipe;
        w.tick();
        w.seam_env();
        let cap = w.pipes[p].cap.unwrap_or(usize::MAX);
        let free = cap.saturating_sub(w.pipes[p].undrained);
        if free == 0 {
            w.pipes[p].writer_waker = Some(cx.waker().clone());
            w.stat("frag.write_blocked_pipe_full");
            w.nontrivial = true;
            w.ev("pwrite.pending", p as u64, 0);
            return Poll::Pending;
        }
        let mut n = free.min(self.buf.len());
        if w.cfg.short_read && n > 1 && w.tape.chance(1, 4) {
            n = 1 + w.tape.draw(n - 1);
            w.stat("buggify.short_write");
        }
        if n < self.buf.len() {
            w.stat("frag.partial_write");
            w.nontrivial = true;
        }
        let pipe = &mut w.pipes[p];
        pipe.log.extend_from_slice(&self.buf[..n]);
        pipe.undrained += n;
        w.ev("pwrite", p as u64, n as u64);
        Poll::Ready(Ok(n))
    }
}

impl WriteHalf for PWriteHalf {
    async fn write(&mut self, buf: &[u8]) -> zlink_core::Result<()> {
        let mut pos = 0;
        while pos < buf.len() {
            let n = WriteSome { world: &self.world, pipe: self.pipe, buf: &buf[pos..] }.await?;
            pos += n;
        }
        Ok(())
    }
}

// ---------------------------------------------------------------------------------------------
// Stub listener

pub struct SimListener {
    pub world: World,
    /// Connections this listener has already created but not yet handed out (a listener with
    /// pre-opened or pooled connections): `accept` returns them newest first, so the order in
    /// which connections are accepted is not the order in which they (and their ids) were created.
    prepared: Vec<(usize, zlink_core::Connection<SimSocket>)>,
}

impl SimListener {
    pub fn new(world: World) -> Self {
        SimListener { world, prepared: Vec::new() }
    }
}

impl fmt::Debug for SimListener {
    fn fmt(&self, f: &mut fmt::Formatter<'_>) -> fmt::Result {
        write!(f, "SimListener")
    }
}

pub struct AcceptFut<'a> {
    l: &'a mut SimListener,
    polled_pending: bool,
    done: bool,
}

impl Future for AcceptFut<'_> {
    type Output = zlink_core::Result<zlink_core::Connection<SimSocket>>;
    fn poll(mut self: Pin<&mut Self>, cx: &mut Context<'_>) -> Poll<Self::Output> {
        let this = &mut *self;
        let world = this.l.world.clone();
        let mut w = world.borrow_mut();
        w.tick_at("accept poll");
        w.seam_env();
        if matches!(w.listener.accept_fail_at.first(), Some(at) if w.counter >= *at) {
            w.listener.accept_fail_at.remove(0);
            w.listener.accept_failures += 1;
            w.stat("fault.transient_accept_error");
            w.nontrivial = true;
            w.ev("accept.err", 0, 0);
            this.done = true;
            let e = w.transport_error(true);
            return Poll::Ready(Err(e));
        }
        if w.cfg.listener_prepares && (!this.l.prepared.is_empty() || w.listener.backlog.len() >= 2) {
            // create connections for everything that is queued, in queue order, then hand them out
            // newest first
            let queued: Vec<(usize, usize)> = w.listener.backlog.drain(..).collect();
            drop(w);
            for (c2s, s2c) in queued {
                let conn = zlink_core::Connection::new(W::socket(&world, c2s, s2c));
                world.borrow_mut().conn_ids.push(conn.id());
                this.l.prepared.push((c2s, conn));
            }
            let (c2s, conn) = this.l.prepared.pop().unwrap();
            let mut w = world.borrow_mut();
            w.listener.accepted += 1;
            w.ev("accept", c2s as u64, 0);
            w.stat("connections_accepted_in_another_order_than_they_were_created");
            let sq = w.seq;
            w.set_changes.push(sq);
            w.accepts.push((sq, c2s));
            this.done = true;
            return Poll::Ready(Ok(conn));
        }
        if !w.listener.backlog.is_empty() {
            if w.cfg.accept_pending_despite_backlog && w.tape.chance(1, 4) {
                w.stat("buggify.accept_pending_despite_backlog");
                w.nontrivial = true;
                this.polled_pending = true;
                cx.waker().wake_by_ref();
                return Poll::Pending;
            }
            let (c2s, s2c) = w.listener.backlog.pop_front().unwrap();
            w.listener.accepted += 1;
            w.ev("accept", c2s as u64, 0);
            let sq = w.seq;
            w.set_changes.push(sq);
            w.accepts.push((sq, c2s));
            drop(w);
            this.done = true;
            let conn = zlink_core::Connection::new(W::socket(&world, c2s, s2c));
            world.borrow_mut().conn_ids.push(conn.id());
            return Poll::Ready(Ok(conn));
        }
        w.listener.waker = Some(cx.waker().clone());
        this.polled_pending = true;
        Poll::Pending
    }
}

impl Drop for AcceptFut<'_> {
    fn drop(&mut self) {
        if !self.done && self.polled_pending {
            if let Ok(mut w) = self.l.world.try_borrow_mut() {
                w.stat("probe.accept_future_dropped_while_pending");
            }
        }
    }
}

impl zlink_core::Listener for SimListener {
    type Socket = SimSocket;
    async fn accept(&mut self) -> zlink_core::Result<zlink_core::Connection<SimSocket>> {
        AcceptFut { l: self, polled_pending: false, done: false }.await
    }
}

// ---------------------------------------------------------------------------------------------
// Stub reply stream (items appear when the environment says so)

pub struct SimStream {
    pub world: World,
    pub id: usize,
}

impl fmt::Debug for SimStream {
    fn fmt(&self, f: &mut fmt::Formatter<'_>) -> fmt::Result {
        write!(f, "SimStream({})", self.id)
    }
}

impl Drop for SimStream {
    fn drop(&mut self) {
        if let Ok(mut w) = self.world.try_borrow_mut() {
            w.streams[self.id].dropped = true;
            w.ev("drop.stream", self.id as u64, 0);
        }
    }
}

impl SimStream {
    /// Poll for the next (payload id, continues) pair.
    pub fn poll_item(&mut self, cx: &mut Context<'_>) -> Poll<Option<(u64, Option<bool>)>> {
        let mut w = self.world.borrow_mut();
        w.tick_at("reply stream poll");
        w.seam_env();
        let id = self.id;
        if !w.streams[id].available.is_empty() {
            if w.cfg.stream_pending_despite_item && w.tape.chance(1, 4) {
                w.stat("buggify.stream_pending_despite_item");
                w.nontrivial = true;
                cx.waker().wake_by_ref();
                return Poll::Pending;
            }
            let it = w.streams[id].available.pop_front().unwrap();
            w.ev("stream.item", id as u64, it.0);
            let sq = w.seq;
            w.stream_item_seqs.push(sq);
            return Poll::Ready(Some(it));
        }
        if w.streams[id].ended {
            if w.streams[id].reported_end {
                // `Stream` does not say what a stream does when it is polled again after `None`
                // (it "may panic, block forever, or cause other kinds of problems"); this one records
                // the caller's mistake and then blocks forever.
                w.stat("probe.reply_stream_polled_after_it_reported_its_end");
                w.set_fail("stream/polled-after-end", format!("reply stream {id} was polled again after it had returned None (a Stream need not be fused: it may panic or never complete)"));
                return Poll::Pending;
            }
            w.streams[id].reported_end = true;
            w.ev("stream.end", id as u64, 0);
            let sq = w.seq;
            w.set_changes.push(sq);
            return Poll::Ready(None);
        }
        w.streams[id].waker = Some(cx.waker().clone());
        Poll::Pending
    }
}
