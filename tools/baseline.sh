#!/bin/bash
# Repository baseline with the verification guard OFF (no --cfg zlink_verif).
unset RUSTFLAGS CARGO_ENCODED_RUSTFLAGS CARGO_BUILD_RUSTFLAGS
export CARGO_NET_OFFLINE=true
cd /repo || exit 2
if [ -f /w/lib/nextest.toml ] && cargo nextest --version >/dev/null 2>&1; then
  exec cargo nextest run --workspace --no-fail-fast --tool-config-file pb:/w/lib/nextest.toml --profile pb --test-threads 8 --offline
else
  exec cargo test --workspace --no-fail-fast --offline
fi
