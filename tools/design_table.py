#!/usr/bin/env python3
"""Prints the §10.1 table of DESIGN.md from the committed evidence files."""
import json, os
V = os.path.dirname(os.path.dirname(os.path.abspath(__file__)))
rows = []
for p in "C01 C02 C06 C07 C08 C09 C10 C11 C17 C18 C19 C20".split():
    e = json.load(open(f"{V}/evidence/{p}.json"))
    c = e["coverage"]
    twin = c.get("optimised_build_pass") or {}
    kf = len(c.get("known_findings_reproduced") or [])
    extra = []
    if c.get("pressure_pass"):
        extra.append(f"pressure pass {c['pressure_pass']['runs']:,}".replace(",", " "))
    if c.get("ids_under_controlled_thread_schedules"):
        extra.append(f"{c['ids_under_controlled_thread_schedules']['schedules_run']} Miri schedules (ids)")
    if c.get("under_controlled_thread_schedules"):
        extra.append(f"{c['under_controlled_thread_schedules']['schedules_run']} Miri schedules (threads)")
    res = "holds" if kf == 0 else f"KNOWN-FINDING x{kf}; nothing else"
    rows.append(f"| {p} | {c['systematic_cases']:,} + {c['seeded_random_runs']:,} | {c['distinct_nontrivial']:,} | {twin.get('seeded_random_runs', 0):,} seeded + systematic | {'; '.join(extra) or '-'} | {e['wall_s']:.0f} s | {res} |".replace(",", " "))
print("| id | executions, main pass (systematic + seeded) | distinct non-trivial schedule signatures | optimised-build pass | further passes | wall | result on the current tree |")
print("|----|------|------|------|------|------|------|")
print("\n".join(rows))
