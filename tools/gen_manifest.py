#!/usr/bin/env python3
"""Regenerates /verif/MANIFEST.json from the table below (run after adding a check)."""
import json, os, subprocess

HERE = os.path.dirname(os.path.dirname(os.path.abspath(__file__)))

TECH = "deterministic simulation with fault injection: seeded search over choice tapes (schedule, fragmentation, cancellation and fault placement all drawn from one tape), real zlink code over stub transports, reference-model oracle, tape minimisation and exact replay"

CLAIMED = {
    # id: (built, category, design_ref, text, note)
    "C01": (True, "exploration", "DESIGN.md §3 C01",
            "Real Connection::receive_call/receive_reply over a stub read half; 40+ corpus streams with every single and every pair of cut positions, plus 1.5e5 (quick) / 3e6 (thorough) seeded runs varying frames (valid, wrong-shape, malformed, whitespace-padded, six target types, sizes on the 256-byte growth steps), delivery partition, short reads, pending-despite-data and poll order; each result compared with a per-frame reference decode. Sampling, not proof. Per receive the tape also picks the public entry point (Connection's forwarding method, the read half, split + join first, a chain's reply stream); string contents cover ASCII, dense multi-byte characters with corner-case UTF-8 encodings and JSON escape sequences; one script in sixteen is long (up to 300 frames) and one in sixteen carries frames of 1..90 kB; zlink's log statements run with a tape-chosen level (off / WARN / all / all formatted). Since round i: nine target types (added: a call type filled through deserialize_bytes, serde_json::Value, a reply/error pair that owns and borrows at once), documents cut in two by a NUL; every check also runs its systematic part and a quarter of its seeded runs on a second build of the simulator and of zlink without debug assertions and overflow checks (opt-level 3).",
            "Trusts serde_json::from_slice as the per-frame reference; stub honours the ReadHalf contract; streams end on a frame boundary."),
    "C07": (True, "exploration", "DESIGN.md §3 C07",
            "C01's scripts and oracle with the pending receive future dropped at tape-chosen suspension points (every k-th pending poll for every k on the corpus delivered byte-by-byte and with all single/double cuts; probabilistic beyond) and a new receive started, possibly for another type. Receives also go through the read half, after split + join, and through chains' reply streams (an abandoned next() drops the stream). One seeded run in 24 asks the same question over the real tokio / smol Unix sockets (duplex connections, receivers abandoning pending receives at the transports' own suspension points). Since round i: C01's added target types and NUL-cut documents; the optimised-build pass (no debug assertions, no overflow checks) repeats the systematic part and a quarter of the seeded runs.",
            "Stub read future transfers bytes only in the poll that returns Ready (cancel-safe as the trait demands), so any loss is zlink's."),
    "C02": (True, "exploration", "DESIGN.md §3 C02",
            "Real enqueue_call/send_call/send_reply/send_error/flush on a Connection whose write half records every write call; every free-space value 0..=600 x 7 size/refusal classes systematically, plus 1.2e5 (quick) / 3e6 (thorough) seeded histories of up to 31 operations with sizes aimed at the buffer end and growth steps, refused serialisations at any position, write stalls, a failing write and abandoned flushes; compared op by op with a list-of-pending-frames reference writer (frame count, order, one write per flush, JSON value of each frame). Histories also contain chain_call/append/send operations with refused links at any position, write_mut() entry points and split + join between operations; one message in five is a shape-zoo value (serde data-model shapes: empty and non-empty tuple/struct variants, maps keyed by strings, integers, chars, nested options, tagged and untagged enums, flatten, i128, floats, chars) sent as call, reply or error parameters. Since round i: the optimised-build pass (second build of simulator and zlink, opt-level 3, no debug assertions, no overflow checks) repeats the systematic part and a quarter of the seeded histories.",
            "Frames are compared by JSON value (byte identity with serde_json is C03, not claimed). Stub writes are all-or-nothing."),
    "C06": (True, "exploration", "DESIGN.md §3 C06",
            "Real chain_call/append/send stream and a proxy #[zlink(more)] method against a scripted conforming server: every chain of up to 3 (quick) / 4 (thorough) calls over {plain, oneway, more} x 4 reply styles x 3 deliveries systematically, plus 1.2e5 / 2e6 seeded chains of up to 6 calls with trailing frames of a later exchange and arbitrary chunking. Oracle: one write with the calls in order and right flags; yielded items = owed replies; quiescence with the stream still pending and nothing owed = blocked-on-unowed-reply; later frames still readable. Also: refused submissions on the same connection before the chain, org.varlink.service error as the last owed reply, four spellings of every frame (member order, blanks, escaped solidus), chains of up to 150 calls and more-calls with up to 199 continuing replies (scale swarm). Since round i: the check is compiled for two instantiations of the reply/error type parameters (first tape value picks one; the systematic part runs for both); serial histories: one long-lived connection used for 40..230 chains with ordinary receives in between, early big replies, streams dropped before they are drained, judged by a global FIFO oracle; optimised-build pass.",
            "Scripted server is conforming and answers only after the whole chain was written."),
    "C11": (True, "exploration", "DESIGN.md §3 C11",
            "Same drivers with reply/error types that borrow &str from the receive buffer; the harness holds every yielded item and re-reads all of them after each further item and at the end, for reply sizes inside 256 bytes / one growth step / several and deliveries in one read / one per reply / random. The violation class is computed from the history (overwritten or reallocated by a transport read issued while the item was held = known finding F4; changed without any transport read = always an alarm). Also: org.varlink.service errors anywhere in the reply sequence, frames of a later exchange behind the replies, escaped strings with a Cow<str> target (only genuinely borrowed items are watched), reply bursts of 100..250 kB, and a read-buffer observation hook that tells growth-while-held (known finding) from change-without-read (alarm). Since round i: two instantiations of the reply/error type parameters (reply with drop glue + error without; both with drop glue and both borrowing); optimised-build pass.",
            "Buffer growth is observed at the read seam (end address of the slice, or a read that fills its window); held data is only dereferenced when no growth was observed since it was yielded."),
    "C17": (True, "exploration", "DESIGN.md §3 C17",
            "Hook-lowered limit L (1..64 KiB; thorough adds runs at the production 100 MiB): every size within +-3 of every multiple of 256 up to L+512, inbound (valid frame, unterminated filler; three chunkings) and outbound (empty buffer, after small enqueued messages), plus seeded sizes/chunkings and pipelined bursts of small frames. Oracle: accept band / refuse band with Error::BufferOverflow, nothing of a refused message on the transport, connection usable afterwards, bytes consumed before an overflow <= L+256. Also: an outbound pipeline direction (hundreds of messages enqueued without a flush, limits up to 3 MiB that are not powers of two), a burst of small frames followed by a frame that never ends, pending receives abandoned and started over in one seeded run of three, and a memory bound stated without reference to the implementation: at every transport read, bytes read - bytes handed to the application + window offered <= L + 256. Since round i: the optimised-build pass (no debug assertions, no overflow checks) repeats the boundary sweeps and a quarter of the seeded runs.",
            "size == L-1 is a don't-care (the statement does not say whether the terminator counts). The limit value is set through the cfg(zlink_verif) hook; the comparison sites are the production ones."),
    "C08": (True, "exploration", "DESIGN.md §3 C08",
            "Real Server::run over stub listener/sockets/service: every interleaving of arrivals, frame deliveries and closes for 12 two-client shapes (systematic), plus 1e5 / 2e6 seeded worlds of 1..4 clients x 0..5 calls (plain, oneway, error, slow; pipelined or ping-pong) with arbitrary fragmentation, short reads, suspensions and environment events inside seam calls. Oracle: each client's received frames equal the sequential reference execution of the pure service for that client; every frame carries the client's id; each call handled once, in order; connection ids distinct. Also: a client is, by tape, a byte-level script or a real zlink client (low-level API, proxy methods, chains); scale swarm (8..40 clients, one client with 30..200 calls, payloads around 2^16..1 MiB, one server instance living through up to 66 000 sequential connections); payloads with characters the serializer must escape (incl. U+0000) and corner-case multi-byte characters; decode-level faults (garbage, unknown method, wrong types, wrong shape) in one script of five with the oracle 'a call the service handled is owed its answer'; cooperative-yield transport; log statements run with a tape-chosen level. Since round i: the stub service is generic over instantiations of the Service trait's associated types, drawn per world (derived borrowing call type + owned reply + concrete stream struct; call decoded by way of serde_json::Value + reply borrowing from the service + Pin<Box<dyn Stream>>; zero-sized reply stream type), plus worlds whose service ignores the content of calls (deserialize_ignored_any) where only the envelope's flags decide what is owed; optimised-build pass.",
            "Service is pure and stamps (cid, seq) into every reply, so cross-delivery and reordering are visible in the bytes. Writes eventually complete."),
    "C09": (True, "fault_enumeration", "DESIGN.md §3 C09",
            "C08's world with 1..3 healthy and 1..2 faulty clients and an after-the-fault probe connection. Enumerated: 9 fault kinds x 3 positions x every interleaving (to depth 6 quick / 8 thorough environment events) with a healthy client; seeded beyond with several faults per client. Oracle: healthy clients' output equals the reference (and, in a quarter of the runs, is byte-identical to a re-execution without the faulty clients under another schedule); server future still pending; probe connection served; no foreign frames anywhere. Also: calls without `more` that the service answers through a one-item stream (deferred answers), service streams with truthful size_hint, long-lived server instances (up to 66 000 sequential faulty/healthy connections), and zlink's log statements evaluated at WARN / all / all formatted in a tape-chosen share of the runs. Since round i: service instantiations as in C08; a history flavour (subscribers parked, then a pipelined burst of 64..260 calls handled back to back while stream items become ready and a subscriber's transport rejects writes); optimised-build pass.",
            "Fault list is the property's: garbage, truncated frame then EOF, EOF mid-burst, read error, write error from the k-th write, unknown method, wrong parameter types, wrong-shape JSON, oversize (hook-lowered limit). A client that never drains its socket is not in it."),
    "C10": (True, "exploration", "DESIGN.md §3 C10",
            "C08's world plus streaming calls answered with a controllable stream (0..4 items with per-item continues flags, ending or never ending), plain calls pipelined before and behind, items released at tape-chosen moments, a write failure at any reply of one client. Oracle: per-client reference including stream items in order with their flags and, once the stream has ended, the replies to the calls behind it; calls behind a never-ending stream owed nothing; after a write failure exactly the frames before it; other clients unaffected. Also: stream items that are triggered by another client's answered call; service streams with default / exact / at-least-one size_hint; deferred (non-more) calls answered by a stream; and one world in eight whose service is a real notified::State of zlink-tokio or zlink-smol (subscribers and setters on one Server::run; per subscriber: received values form a subsequence of the values in the order they were set, each marked continuing, ending with the latest). Since round i: service instantiations as in C08 (incl. a zero-sized reply stream type and boxed streams); optimised-build pass.",
            "Stream items are produced by the environment, so 'other clients are served while a stream is open' is checked as bounded liveness at quiescence. In the notified worlds the stream type is the transport crates' real one; elsewhere it is the stub."),
    "C18": (True, "exploration", "DESIGN.md §3 C18",
            "C08's world with flooders (20..60 pipelined calls) and single callers whose one complete call appears after a tape-chosen number of flooder replies, optional short-lived and streaming clients. Post-run fairness monitor over the recorded order of service entries, call-readable moments, accepts and connection-set changes: no connection served twice while a single caller waits with the set unchanged; at most N x (transitions + 1) other calls overall. Also: one world in four uses a uniform cooperative-yield transport (every read of every connection yields once, returns at most one frame, no short reads); one run in 32 runs the real Server::run on a real zlink_smol Unix listener with raw client sockets, the quiet client's call being written from inside Service::handle while a flooder's buffered burst is served; waiting calls of up to 1.3 MiB in one run of eight. Since round i: a history flavour (a crowd of 33..100 simultaneous short-lived connections early in the server's life, then flooders with 500..900 calls each and waiting calls that arrive hundreds of served calls later); service instantiation drawn per world; optimised-build pass.",
            "Waiting party is always a single caller delivered in one piece; read_pending_despite_data is off (a transport that withholds readable bytes makes the call not waiting from the server's point of view). The real-socket slice is smol only (tokio refreshes cached readiness only when its I/O driver runs; whether that counts against the statement is not settled by it)."),
    "C20": (True, "exploration", "DESIGN.md §3 C20",
            "Real zlink_tokio and zlink_smol notified::{State, Once, Stream} with their real channels, driven poll by poll: every operation sequence over {set, subscribe, poll0, poll1, poll2} up to length 7 (quick) / 9 (thorough), every one-shot sequence over {poll, notify, drop notifier} up to length 3, plus 1.5e5 / 3e6 seeded sequences that also drop subscribers and clone/drop states. Model: values yielded are set values, strictly increasing, marked continuing; no end while a state exists; after draining the last item is the last value set; a pending subscriber is woken by the next set; one-shot = exactly one final item then end; both crates run the same sequence. Also: rhythm sequences (a unit of 1..4 operations repeated up to 1030 times, then drain), states cloned and clones dropped, and a lost-wake-up detector (a subscriber that returned Pending must have its waker invoked by the next set). Since round i: the optimised-build pass repeats the systematic sequences and a quarter of the seeded ones.",
            "Single-threaded operation sequences; races inside the channel crates under real parallelism are out of scope."),
    "C19": (True, "exploration", "DESIGN.md §3 C19",
            "Two tiers in one check. Tier A (10/16 of the runs): real Connection over a simulated bounded pipe whose write half runs the transport crates' write-all loop; capacity 16..4096, sizes around it, raw peer draining at tape-chosen moments, send/flush futures abandoned at tape-chosen pending polls. Tier B (3/16 tokio + 3/16 smol): the real zlink_tokio / zlink_smol unix Stream, Listener, bind, connect and Listener::try_from(OwnedFd) on real kernel sockets, 1..8 connections (socketpair / bound / inherited blocking-mode descriptor), SO_SNDBUF 4 KiB..default, messages 0 B..300 kB (quick) / 1 MiB (thorough), split duplex with both directions busy and end-of-stream after close, unsplit call/reply ping-pong, abandoned sends against a raw peer; one thread issues every syscall in tape order. 1.6e4 (quick) / 4e5 (thorough) seeded runs. Oracle: received sequence = sent sequence; ids distinct; raw peer stream = whole submitted frames, in order, at most once. Also in tier B: receivers that abandon pending receives and start over, a sender that vanishes with unread data in its own queue (kernel reset after the data: everything sent before must still be received). Finally the clause 'connection identifiers are distinct' under concurrent creation: real Connection::new/From/split/join from 2..8 OS threads under Miri, which owns the thread schedule (48 seeds quick / 576 thorough, one -Zmiri-seed = one repeatable interleaving, preemption between any two basic blocks), plus a native run with the threads one after the other. Since round i: a peer that closes its sending direction only (shutdown(SHUT_WR)) and keeps reading - the zlink end receives what was sent, sees the end of the stream and must still get its own messages through (both backends, halves split from the start or re-joined); optimised-build pass for both tiers.",
            "Tier B's kernel is real, not stubbed; it is treated as a deterministic function of one thread's syscall sequence and that is re-checked on a sample of every batch. Blocked syscalls are caught by a wall-clock watchdog (120 s quick / 900 s thorough per execution). Concurrent connection creation is scheduled by Miri, not by the tape (its own seed range, derived from VERIF_SEED)."),
}

PLANNED = set()

NOT_BUILT_REASON = "claimed in DESIGN.md but its check is not built yet in this commit"

NA = {
    "C03": "pure function of (value, free bytes in the slice): no schedule, fault, clock or second party; deciding it is input generation against an oracle, not simulation. The one simulator-facing part (retry from an arbitrary fill position) is exercised by C02's histories.",
    "C04": "classification of one reply frame is a pure function of (frame bytes, parameter type, error type); no interleaving or fault changes the answer.",
    "C05": "call / reply / error envelopes are pure Serialize/Deserialize round-trips of single values.",
    "C12": "ranges over programs handed to a proc macro; one deterministic expansion and one deterministic frame per argument list.",
    "C13": "the IDL parser is a pure function of its input text.",
    "C14": "render/parse identity composes pure functions; the GetInterfaceDescription exchange adds a transport but no nondeterminism the verdict depends on.",
    "C15": "code generation plus compilation; ranges over programs, nothing to schedule or fault.",
    "C16": "derive output is a compile-time constant per Rust type.",
}

ALL = ["C%02d" % i for i in range(1, 21)]


def main():
    hook_commits = subprocess.run(
        ["git", "-C", "/repo", "log", "--format=%h %s", "--grep=^verif hook"],
        capture_output=True, text=True).stdout.strip().splitlines()
    checks = []
    na = []
    for pid in ALL:
        if pid in CLAIMED and CLAIMED[pid][0]:
            _, cat, ref, text, note = CLAIMED[pid]
            checks.append({
                "property_id": pid,
                "quick_cmd": f"./check {pid} quick",
                "thorough_cmd": f"./check {pid} thorough",
                "evidence_file": f"/verif/evidence/{pid}.json",
                "replay_cmd_template": f"./check {pid} --replay {{path}}",
                "engine": "zsim",
                "level_claimed": {"category": cat, "text": text, "design_ref": ref},
                "level_note": note,
                "technique": TECH,
            })
        elif pid in CLAIMED or pid in PLANNED:
            na.append({"property_id": pid, "reason": NOT_BUILT_REASON})
        else:
            na.append({"property_id": pid, "reason": NA[pid]})
    m = {
        "version": 1,
        "setup_cmd": "./check build",
        "hooks": {
            "guard": "--cfg zlink_verif (rustc cfg, off by default)",
            "enable": "sim/.cargo/config.toml sets build.rustflags = [\"--cfg\", \"zlink_verif\"]; ./check unsets RUSTFLAGS so that setting is used; the simulator depends on /repo's crates by path, so every check rebuilds from /repo's working tree",
            "baseline_off_cmd": "/verif/tools/baseline.sh",
            "source_commits": [c.split()[0] for c in hook_commits],
            "add_only": True,
        },
        "engines": [{
            "name": "zsim",
            "path": "/verif/sim",
            "serves_properties": [c["property_id"] for c in checks],
            "kind_free_text": "hand-written deterministic simulator: choice tape, single-thread executor, stub Socket/Listener/Service/Stream behind zlink's own traits, fault + buggify catalogue, reference models, tape minimiser, replay files; real tokio/smol Unix sockets driven from one thread for C19/C07/C18 slices; a tracing subscriber with per-run level; /verif/miri-ids run under Miri's seeded thread scheduler for connection ids",
        }],
        "checks": checks,
        "not_applicable": na,
        "notes": "Exit codes: 0 held, 1 VIOLATION line printed, 2 harness error. VERIF_SEED selects the batch seed (default 20260929). Known findings: /verif/known_findings.json.",
    }
    with open(os.path.join(HERE, "MANIFEST.json"), "w") as f:
        json.dump(m, f, indent=1)
        f.write("\n")


if __name__ == "__main__":
    main()
