#!/usr/bin/env python3
"""C19, clause "connection identifiers are distinct", under concurrent creation from several OS threads.

The little program /verif/miri-ids (real Connection::new / From / split / join on a null socket, N
threads x M connections) is run under Miri, which owns the thread schedule: one -Zmiri-seed value is
one exactly repeatable interleaving, with preemption possible between any two basic blocks. Seeds
are derived from VERIF_SEED. A duplicate id is reported as

    VIOLATION property=C19 replay=/verif/replays/C19-ids-<seed>.json

and `ids_miri.py --replay <file>` re-runs exactly that schedule. The measured coverage is merged
into /verif/evidence/C19.json under coverage.ids_under_controlled_thread_schedules.

usage: ids_miri.py quick|thorough            ids_miri.py --replay <file>
exit: 0 held, 1 violation, 2 harness error
"""
import json, os, re, subprocess, sys, time

VERIF = os.environ.get("VERIF_DIR") or os.path.dirname(os.path.dirname(os.path.abspath(__file__)))
CRATE = os.path.join(VERIF, "miri-ids")
ENV = dict(os.environ, CARGO_NET_OFFLINE="true")
for k in ("RUSTFLAGS", "CARGO_ENCODED_RUSTFLAGS", "CARGO_BUILD_RUSTFLAGS"):
    ENV.pop(k, None)


def miri(seeds_lo, seeds_hi, threads, per, rate):
    env = dict(ENV, MIRIFLAGS=f"-Zmiri-many-seeds={seeds_lo}..{seeds_hi} -Zmiri-preemption-rate={rate}")
    return subprocess.run(["cargo", "+nightly", "miri", "run", "--offline", "-q", "--", str(threads), str(per)],
                          cwd=CRATE, env=env, capture_output=True, text=True, timeout=3000)


def native_sequential():
    b = subprocess.run(["cargo", "build", "--offline", "-q"], cwd=CRATE, env=ENV, capture_output=True, text=True)
    if b.returncode != 0:
        return None, b.stderr[-2000:]
    r = subprocess.run([os.path.join(CRATE, "target/debug/zids"), "4", "6", "--sequential"], capture_output=True, text=True)
    return r, ""


def write_replay(name, obj):
    d = os.path.join(VERIF, "replays")
    os.makedirs(d, exist_ok=True)
    p = os.path.join(d, name)
    json.dump(obj, open(p, "w"), indent=1)
    return p


def main():
    if len(sys.argv) >= 3 and sys.argv[1] == "--replay":
        r = json.load(open(sys.argv[2]))
        if r.get("mode") == "sequential":
            out, err = native_sequential()
            if out is None:
                print("HARNESS-ERROR:", err)
                return 2
        else:
            out = miri(r["seed"], r["seed"] + 1, r["threads"], r["per_thread"], r["preemption_rate"])
        print(out.stdout.strip())
        dup = re.search(r"DUPLICATE[^\n]*", out.stdout)
        if dup:
            same = dup.group(0) == r.get("message", "").splitlines()[0] if r.get("message") else True
            print(f"VIOLATION property=C19 replay={sys.argv[2]}")
            print(f"exact reproduction of recorded history: {'yes' if same else 'no'}")
            return 1 if same else 2
        print("replay did not reproduce the duplicate")
        return 2
    tier = sys.argv[1] if len(sys.argv) > 1 else "quick"
    base = int(os.environ.get("VERIF_SEED", "20260929")) % 1_000_000 * 1000
    # (threads, connections per thread, preemption rate, number of seeds)
    plans = [(3, 3, 0.1, 24), (2, 4, 0.3, 16), (4, 2, 0.05, 8)] if tier == "quick" else [(3, 3, 0.1, 256), (2, 6, 0.3, 128), (4, 3, 0.05, 128), (8, 2, 0.02, 64)]
    t0 = time.time()
    runs = 0
    samples = []
    lo = base
    for threads, per, rate, n in plans:
        r = miri(lo, lo + n, threads, per, rate)
        m = re.search(r"FAILING SEED: (\d+)", r.stdout + r.stderr)
        dup = re.search(r"DUPLICATE[^\n]*", r.stdout + r.stderr)
        if dup or m:
            seed = int(m.group(1)) if m else lo
            # (with many seeds in flight several may fail and their output interleaves: the reported
            # seed is run once more on its own, so that the recorded message is its own)
            one = miri(seed, seed + 1, threads, per, rate)
            dup1 = re.search(r"DUPLICATE[^\n]*", one.stdout + one.stderr)
            if dup1:
                dup = dup1
            p = write_replay(f"C19-ids-{seed}.json", {"property": "C19", "class": "C19/duplicate-connection-id", "kind": "violation", "mode": "miri", "seed": seed, "threads": threads, "per_thread": per, "preemption_rate": rate, "message": dup.group(0) if dup else "", "how_to_replay": f"MIRIFLAGS='-Zmiri-seed={seed} -Zmiri-preemption-rate={rate}' cargo +nightly miri run --offline -- {threads} {per}   (in /verif/miri-ids)"})
            print(f"  violation class=C19/duplicate-connection-id: {dup.group(0) if dup else ''} (Miri schedule seed {seed}, {threads} threads x {per} connections)")
            print(f"VIOLATION property=C19 replay={p}")
            return 1
        oks = len(re.findall(r"^ok:", r.stdout, re.M))
        if r.returncode != 0 or oks != n:
            print("HARNESS-ERROR: Miri run failed\n" + (r.stdout + r.stderr)[-3000:])
            return 2
        runs += n
        samples.append({"threads": threads, "connections_per_thread": per, "miri_preemption_rate": rate, "schedule_seeds": f"{lo}..{lo + n}"})
        lo += n
    out, err = native_sequential()
    if out is None:
        print("HARNESS-ERROR:", err)
        return 2
    if "DUPLICATE" in out.stdout:
        p = write_replay("C19-ids-sequential.json", {"property": "C19", "class": "C19/duplicate-connection-id", "kind": "violation", "mode": "sequential", "message": out.stdout.strip()})
        print(f"  violation class=C19/duplicate-connection-id: {out.stdout.strip()} (threads run one after the other)")
        print(f"VIOLATION property=C19 replay={p}")
        return 1
    ev_path = os.path.join(VERIF, "evidence", "C19.json")
    if os.path.exists(ev_path) and "--no-evidence" not in sys.argv:
        ev = json.load(open(ev_path))
        ev["coverage"]["ids_under_controlled_thread_schedules"] = {
            "what": "real Connection::new / From / split / join on a null socket from N OS threads; Miri decides the interleaving (one -Zmiri-seed = one repeatable schedule, preemption between any two basic blocks); plus one native run with the threads one after the other (separate thread-locals, no interleaving)",
            "schedules_run": runs,
            "plans": samples,
            "duplicates": 0,
            "wall_s": round(time.time() - t0, 1),
        }
        ev["wall_s"] = round(ev.get("wall_s", 0) + time.time() - t0, 1)
        json.dump(ev, open(ev_path, "w"), indent=1)
    print(f"C19 ids: {runs} Miri-scheduled executions + 1 sequential, ids pairwise distinct, {time.time() - t0:.1f}s")
    return 0


if __name__ == "__main__":
    sys.exit(main())
