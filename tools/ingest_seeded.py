#!/usr/bin/env python3
"""Confirm a sub-agent's seeded change in its scratch worktree and file it under /verif/seeded/<name>/.

usage: ingest_seeded.py <PROP> <scratch-dir> <name> --demo-dest <path in worktree> --demo-cmd "<cargo ...>" [--needs "..."]

Confirms, in the scratch worktree <scratch-dir>/repo (never in /repo):
  1. demo passes on the unchanged tree, 2. patch applies, 3. demo fails with the patch,
  4. the whole existing test suite passes with the patch (demo moved away), then un-applies the patch.
Only then copies patch.diff, the demo and the notes to /verif/seeded/<name>/ and writes meta.json.
"""
import argparse, json, os, shutil, subprocess, sys, time

ap = argparse.ArgumentParser()
ap.add_argument("prop")
ap.add_argument("scratch")
ap.add_argument("name")
ap.add_argument("--demo-dest", required=True)
ap.add_argument("--demo-src", default=None)
ap.add_argument("--demo-cmd", required=True)
ap.add_argument("--needs", default="")
a = ap.parse_args()

repo = os.path.join(a.scratch, "repo")
out = os.path.join(a.scratch, "out")
env = dict(os.environ, CARGO_NET_OFFLINE="true")
ran = []


def sh(cmd, cwd=repo, timeout=3600):
    t0 = time.time()
    r = subprocess.run(cmd, cwd=cwd, env=env, shell=True, capture_output=True, text=True, timeout=timeout)
    ran.append({"cmd": cmd, "cwd": cwd, "exit": r.returncode, "secs": round(time.time() - t0, 1)})
    return r


def die(msg):
    print("REJECTED:", msg)
    sh("git apply -R " + os.path.join(out, "patch.diff") + " 2>/dev/null; true")
    sys.exit(1)


patch = os.path.join(out, "patch.diff")
demo_src = a.demo_src or os.path.join(out, os.path.basename(a.demo_dest))
demo_dest = os.path.join(repo, a.demo_dest)
assert os.path.exists(patch), patch
assert os.path.exists(demo_src), demo_src
sh("git checkout -q -- . ")
os.makedirs(os.path.dirname(demo_dest), exist_ok=True)
shutil.copy(demo_src, demo_dest)

r = sh(a.demo_cmd)
if r.returncode != 0:
    die("demo does not pass on the unchanged tree:\n" + (r.stdout + r.stderr)[-1500:])
print("demo without patch: pass")
r = sh(f"git apply --whitespace=nowarn {patch}")
if r.returncode != 0:
    die("patch does not apply: " + r.stderr)
r = sh(a.demo_cmd)
if r.returncode == 0:
    die("demo passes WITH the patch")
demo_fail_tail = (r.stdout + r.stderr)[-600:]
print("demo with patch: fails (as required)")
os.rename(demo_dest, demo_dest + ".away")
r = sh("cargo test --workspace --no-fail-fast --offline 2>&1 | grep -E '^test result|FAILED|error(\\[|:)' ")
os.rename(demo_dest + ".away", demo_dest)
lines = r.stdout.strip().splitlines()
bad = [l for l in lines if "FAILED" in l or l.startswith("error") or (l.startswith("test result") and " 0 failed" not in l)]
npass = sum(int(l.split("ok. ")[1].split(" passed")[0]) for l in lines if l.startswith("test result: ok."))
if bad or npass < 150:
    die("existing suite does not pass with the patch: " + "\n".join(bad[:10]) + f" (passed={npass})")
print(f"existing suite with patch: {npass} passed, 0 failed")
sh(f"git apply -R {patch}")
os.remove(demo_dest)

dest = os.path.join("/verif/seeded", a.name)
os.makedirs(dest, exist_ok=True)
shutil.copy(patch, os.path.join(dest, "patch.diff"))
shutil.copy(demo_src, os.path.join(dest, os.path.basename(a.demo_dest)))
for f in ("demo.md", "notes.md"):
    if os.path.exists(os.path.join(out, f)):
        shutil.copy(os.path.join(out, f), os.path.join(dest, f))
meta = {
    "property": a.prop,
    "origin": "independent sub-agent given only the property text and a scratch worktree",
    "needs_to_manifest": a.needs,
    "demo": {"file": os.path.basename(a.demo_dest), "placed_at": a.demo_dest, "cmd": a.demo_cmd,
             "without_patch": "pass", "with_patch": "fail", "failure_tail": demo_fail_tail},
    "existing_suite_with_patch": f"{npass} passed, 0 failed (cargo test --workspace --no-fail-fast --offline)",
    "confirmed_in": repo,
    "ran": ran,
}
json.dump(meta, open(os.path.join(dest, "meta.json"), "w"), indent=1)
print("filed under", dest)
