#!/usr/bin/env python3
"""C20 under real concurrency: a setter thread and subscriber threads on one notified state.

/verif/miri-notified (real zlink_tokio / zlink_smol notified::State and Stream with their real
channels; a setter thread publishes 1..N through a clone of the state while 1..3 subscriber
threads poll their streams) runs under Miri, which owns the thread schedule: one -Zmiri-seed value
is one exactly repeatable interleaving, with preemption possible between any two basic blocks - so
a `set` can land in the middle of a single `poll_next`, which no single-threaded sequence of
whole operations can express. Seeds are derived from VERIF_SEED. A violation is reported as

    VIOLATION property=C20 replay=/verif/replays/C20-threads-<backend>-<seed>.json

and `notified_miri.py --replay <file>` re-runs exactly that schedule. The measured coverage is
merged into /verif/evidence/C20.json under coverage.under_controlled_thread_schedules.

usage: notified_miri.py quick|thorough [--no-evidence]      notified_miri.py --replay <file>
exit: 0 held, 1 violation, 2 harness error
"""
import json, os, re, subprocess, sys, time

VERIF = os.environ.get("VERIF_DIR") or os.path.dirname(os.path.dirname(os.path.abspath(__file__)))
CRATE = os.path.join(VERIF, "miri-notified")
ENV = dict(os.environ, CARGO_NET_OFFLINE="true")
for k in ("RUSTFLAGS", "CARGO_ENCODED_RUSTFLAGS", "CARGO_BUILD_RUSTFLAGS"):
    ENV.pop(k, None)


def miri(lo, hi, backend, sets, subs, rate):
    env = dict(ENV, MIRIFLAGS=f"-Zmiri-many-seeds={lo}..{hi} -Zmiri-preemption-rate={rate}")
    return subprocess.run(["cargo", "+nightly", "miri", "run", "--offline", "-q", "--", backend, str(sets), str(subs)],
                          cwd=CRATE, env=env, capture_output=True, text=True, timeout=3000)


def write_replay(name, obj):
    d = os.path.join(VERIF, "replays")
    os.makedirs(d, exist_ok=True)
    p = os.path.join(d, name)
    json.dump(obj, open(p, "w"), indent=1)
    return p


def main():
    if len(sys.argv) >= 3 and sys.argv[1] == "--replay":
        r = json.load(open(sys.argv[2]))
        out = miri(r["seed"], r["seed"] + 1, r["backend"], r["sets"], r["subscribers"], r["preemption_rate"])
        print(out.stdout.strip())
        v = re.search(r"VIOLATED[^\n]*", out.stdout)
        if v:
            same = v.group(0) == r.get("message", "")
            print(f"VIOLATION property=C20 replay={sys.argv[2]}")
            print(f"exact reproduction of recorded history: {'yes' if same else 'no'}")
            return 1 if same else 2
        print("REPLAY-PASS: the recorded violation does not occur on this tree")
        return 0
    tier = sys.argv[1] if len(sys.argv) > 1 else "quick"
    base = int(os.environ.get("VERIF_SEED", "20260929")) % 1_000_000 * 1000
    # (backend, sets, subscribers, preemption rate, number of seeds)
    if tier == "quick":
        plans = [("tokio", 8, 2, 0.2, 48), ("smol", 8, 2, 0.2, 32), ("tokio", 5, 3, 0.05, 16)]
    else:
        plans = [("tokio", 8, 2, 0.2, 384), ("smol", 8, 2, 0.2, 256), ("tokio", 12, 3, 0.05, 128), ("smol", 12, 3, 0.5, 128), ("tokio", 6, 1, 0.5, 128)]
    t0 = time.time()
    runs = 0
    samples = []
    lo = base
    for backend, sets, subs, rate, n in plans:
        r = miri(lo, lo + n, backend, sets, subs, rate)
        text = r.stdout + r.stderr
        v = re.search(r"VIOLATED[^\n]*", text)
        m = re.search(r"FAILING SEED: (\d+)", text)
        if v and m:
            # (with many seeds in flight several may fail; the reported seed is re-run alone to get its own message)
            seed = int(m.group(1))
            one = miri(seed, seed + 1, backend, sets, subs, rate)
            v1 = re.search(r"VIOLATED[^\n]*", one.stdout + one.stderr)
            msg = v1.group(0) if v1 else v.group(0)
            p = write_replay(f"C20-threads-{backend}-{seed}.json", {"property": "C20", "class": "C20/under-real-concurrency", "kind": "violation", "mode": "miri", "seed": seed, "backend": backend, "sets": sets, "subscribers": subs, "preemption_rate": rate, "message": msg, "how_to_replay": f"MIRIFLAGS='-Zmiri-seed={seed} -Zmiri-preemption-rate={rate}' cargo +nightly miri run --offline -- {backend} {sets} {subs}   (in /verif/miri-notified)"})
            print(f"  violation class=C20/under-real-concurrency: {msg} (Miri schedule seed {seed}; setter thread with {sets} sets, {subs} subscriber threads)")
            print(f"VIOLATION property=C20 replay={p}")
            return 1
        oks = len(re.findall(r"^ok:", r.stdout, re.M))
        if r.returncode != 0 or oks != n:
            print("HARNESS-ERROR: Miri run failed\n" + text[-3000:])
            return 2
        runs += n
        samples.append({"backend": backend, "sets": sets, "subscriber_threads": subs, "miri_preemption_rate": rate, "schedule_seeds": f"{lo}..{lo + n}"})
        lo += n
    ev_path = os.path.join(VERIF, "evidence", "C20.json")
    if os.path.exists(ev_path) and "--no-evidence" not in sys.argv:
        ev = json.load(open(ev_path))
        ev["coverage"]["under_controlled_thread_schedules"] = {
            "what": "real zlink_tokio / zlink_smol notified::State and Stream: a setter thread publishes 1..N through a clone of the state while subscriber threads poll their streams; Miri decides the interleaving (one -Zmiri-seed = one repeatable schedule, preemption between any two basic blocks). Per subscriber: items continuing, values increasing, no end while the state exists, last value seen after draining = last value set",
            "schedules_run": runs,
            "plans": samples,
            "violations": 0,
            "wall_s": round(time.time() - t0, 1),
        }
        ev["wall_s"] = round(ev.get("wall_s", 0) + time.time() - t0, 1)
        json.dump(ev, open(ev_path, "w"), indent=1)
    print(f"C20 threads: {runs} Miri-scheduled executions (setter thread + subscriber threads, tokio and smol), all held, {time.time() - t0:.1f}s")
    return 0


if __name__ == "__main__":
    sys.exit(main())
