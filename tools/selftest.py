#!/usr/bin/env python3
"""Self-tests of the verification machinery.

  selftest.py mutants [--tier quick|thorough] [name-substring ...]
      Sensitivity: applies each property-breaking patch in /verif/mutants/*.diff and
      /verif/seeded/*/patch.diff to a scratch copy of /repo (never to /repo itself), rebuilds the
      simulator against that copy and expects the matching check to exit 1 with a VIOLATION line
      whose replay file reproduces in a fresh process. The scratch copy and its build output live
      under /tmp/zsim-mutants and are removed at the end.

  selftest.py determinism [ID ...]
      Runs each property's quick batch for several seeds twice, with 1 and 16 workers, in
      separate processes, and compares the evidence-independent summary hash lines.
"""
import glob, json, os, re, shutil, subprocess, sys, time

VERIF = os.path.dirname(os.path.dirname(os.path.abspath(__file__)))
SCRATCH = os.environ.get("ZSIM_SCRATCH", "/tmp/zsim-mutants")
ENV = dict(os.environ, CARGO_NET_OFFLINE="true")
for k in ("RUSTFLAGS", "CARGO_ENCODED_RUSTFLAGS", "CARGO_BUILD_RUSTFLAGS"):
    ENV.pop(k, None)


def sh(cmd, cwd=None, env=None, timeout=3600):
    return subprocess.run(cmd, cwd=cwd, env=env or ENV, shell=isinstance(cmd, str),
                          capture_output=True, text=True, timeout=timeout)


def prop_of(path):
    """Property id(s) a mutant is expected to break: from meta.json or the file name."""
    d = os.path.dirname(path)
    meta = os.path.join(d, "meta.json")
    if os.path.basename(path) == "patch.diff" and os.path.exists(meta):
        m = json.load(open(meta))
        p = m.get("detected_by") or m.get("property")
        return p if isinstance(p, list) else [p]
    return re.match(r"(C\d+(?:\+C\d+)*)", os.path.basename(path)).group(1).split("+")


def setup_scratch():
    shutil.rmtree(SCRATCH, ignore_errors=True)
    os.makedirs(SCRATCH)
    r = sh(f"git -C /repo worktree prune; git clone -q --no-hardlinks /repo {SCRATCH}/repo")
    assert r.returncode == 0, r.stderr
    # uncommitted edits in /repo (there should be none) are deliberately not copied
    shutil.copytree(os.path.join(VERIF, "sim"), f"{SCRATCH}/sim",
                    ignore=shutil.ignore_patterns("target", "build.log"))
    toml = open(f"{SCRATCH}/sim/Cargo.toml").read().replace('"/repo/', f'"{SCRATCH}/repo/')
    open(f"{SCRATCH}/sim/Cargo.toml", "w").write(toml)
    os.makedirs(f"{SCRATCH}/verif")
    shutil.copy(os.path.join(VERIF, "known_findings.json"), f"{SCRATCH}/verif/")
    # the Miri-scheduled connection-id program (second half of the C19 check), against the scratch copy
    shutil.copytree(os.path.join(VERIF, "miri-ids"), f"{SCRATCH}/verif/miri-ids", ignore=shutil.ignore_patterns("target"))
    t = open(f"{SCRATCH}/verif/miri-ids/Cargo.toml").read().replace('"/repo/', f'"{SCRATCH}/repo/')
    open(f"{SCRATCH}/verif/miri-ids/Cargo.toml", "w").write(t)
    # the Miri-scheduled notified program (second half of the C20 check), against the scratch copy
    shutil.copytree(os.path.join(VERIF, "miri-notified"), f"{SCRATCH}/verif/miri-notified", ignore=shutil.ignore_patterns("target"))
    t = open(f"{SCRATCH}/verif/miri-notified/Cargo.toml").read().replace('"/repo/', f'"{SCRATCH}/repo/')
    open(f"{SCRATCH}/verif/miri-notified/Cargo.toml", "w").write(t)
    # warm the build (unmutated) so that each mutant only rebuilds zlink crates + zsim
    r = sh("cargo build --release --offline", cwd=f"{SCRATCH}/sim")
    assert r.returncode == 0, r.stderr[-3000:]
    r = sh("cargo build --profile fast --offline", cwd=f"{SCRATCH}/sim")
    assert r.returncode == 0, r.stderr[-3000:]


def run_check(pid, tier, extra=()):
    """Same order as ./check: main build, then the optimised build's slice, then (C19) the ids."""
    env = dict(ENV, VERIF_DIR=f"{SCRATCH}/verif")
    r = sh([f"{SCRATCH}/sim/target/release/zsim", pid, tier, "--no-evidence", *extra], env=env)
    r.exe = f"{SCRATCH}/sim/target/release/zsim"
    if r.returncode == 0:
        b = sh("cargo build --profile fast --offline", cwd=f"{SCRATCH}/sim")
        assert b.returncode == 0, b.stderr[-2000:]
        r = sh([f"{SCRATCH}/sim/target/fast/zsim", pid, tier, "--no-evidence", "--twin", *extra], env=env)
        r.exe = f"{SCRATCH}/sim/target/fast/zsim"
    if pid == "C20" and r.returncode == 0:
        r = sh(["python3", os.path.join(VERIF, "tools", "notified_miri.py"), tier, "--no-evidence"], env=env)
    if pid == "C19" and r.returncode == 0:
        # same order as ./check C19: the simulator first, then the ids under Miri's schedules
        r = sh(["python3", os.path.join(VERIF, "tools", "ids_miri.py"), tier, "--no-evidence"], env=env)
    return r


def mutants(args):
    tier = "quick"
    if "--tier" in args:
        i = args.index("--tier")
        tier = args[i + 1]
        del args[i:i + 2]
    override = None
    if "--props" in args:
        i = args.index("--props")
        override = args[i + 1].split(",")
        del args[i:i + 2]
    paths = sorted(glob.glob(os.path.join(VERIF, "mutants", "*.diff")) +
                   glob.glob(os.path.join(VERIF, "seeded", "*", "patch.diff")))
    if args:
        paths = [p for p in paths if any(a in p for a in args)]
    if not paths:
        print("no mutants selected")
        return 2
    setup_scratch()
    results = []
    try:
        # sanity: the unmutated scratch copy must be quiet for every property involved
        for path in paths:
            name = os.path.relpath(path, VERIF)
            pids = override or prop_of(path)
            t0 = time.time()
            r = sh(f"git -C {SCRATCH}/repo apply --whitespace=nowarn {path}")
            if r.returncode != 0:
                results.append((name, pids, "PATCH-DOES-NOT-APPLY", r.stderr.strip()[:200]))
                continue
            b = sh("cargo build --release --offline", cwd=f"{SCRATCH}/sim")
            if b.returncode != 0:
                results.append((name, pids, "DOES-NOT-BUILD", b.stderr[-400:]))
            else:
                verdicts = []
                for pid in pids:
                    c = run_check(pid, tier)
                    m = re.search(r"VIOLATION property=(\S+) replay=(\S+)", c.stdout)
                    if c.returncode == 1 and m:
                        if "C20-threads-" in m.group(2):
                            rp = sh(["python3", os.path.join(VERIF, "tools", "notified_miri.py"), "--replay", m.group(2)],
                                    env=dict(ENV, VERIF_DIR=f"{SCRATCH}/verif"))
                        elif "C19-ids-" in m.group(2):
                            rp = sh(["python3", os.path.join(VERIF, "tools", "ids_miri.py"), "--replay", m.group(2)],
                                    env=dict(ENV, VERIF_DIR=f"{SCRATCH}/verif"))
                        else:
                            rp = sh([getattr(c, "exe", f"{SCRATCH}/sim/target/release/zsim"), pid, "--replay", m.group(2)],
                                    env=dict(ENV, VERIF_DIR=f"{SCRATCH}/verif"))
                        ok = rp.returncode == 1 and "exact reproduction of recorded history: yes" in rp.stdout
                        cls = re.search(r"violation class=(\S+)", c.stdout)
                        by = ", by the optimised build" if "/fast/" in getattr(c, "exe", "") else ""
                        verdicts.append(f"{pid}:DETECTED({cls.group(1) if cls else '?'}{by}{'' if ok else ', REPLAY-MISMATCH'})")
                    elif c.returncode == 0:
                        verdicts.append(f"{pid}:missed")
                    else:
                        verdicts.append(f"{pid}:exit{c.returncode} {c.stdout[-200:]} {c.stderr[-200:]}")
                results.append((name, pids, " ".join(verdicts), f"{time.time() - t0:.0f}s"))
                print(f"[progress] {name:60s} {' '.join(verdicts)}", flush=True)
            sh(f"git -C {SCRATCH}/repo checkout -- . && git -C {SCRATCH}/repo clean -fdq")
    finally:
        shutil.rmtree(SCRATCH, ignore_errors=True)
    bad = 0
    for name, pids, verdict, extra in results:
        print(f"{name:70s} {verdict}  [{extra}]")
        if "DETECTED" not in verdict or "MISMATCH" in verdict:
            bad += 1
    print(f"{len(results) - bad}/{len(results)} mutants detected")
    return 0 if bad == 0 else 1


def determinism(args):
    ids = args or [c["property_id"] for c in json.load(open(os.path.join(VERIF, "MANIFEST.json")))["checks"]]
    exe = os.path.join(VERIF, "sim/target/release/zsim")
    bad = 0
    for pid in ids:
        lines = {}
        for seed in (1, 2, 3):
            for workers in (1, 16):
                for rep in (0, 1):
                    r = sh([exe, pid, "quick", "--no-evidence", "--seed", str(seed), "--workers", str(workers),
                            "--runs", "20000", "--digest"], env=dict(ENV, VERIF_DIR=VERIF))
                    d = [l for l in r.stdout.splitlines() if l.startswith("DIGEST")]
                    lines.setdefault(seed, set()).add((d[0] if d else f"no digest exit={r.returncode}"))
        for seed, s in lines.items():
            if len(s) != 1:
                bad += 1
                print(f"{pid} seed {seed}: NONDETERMINISTIC {s}")
            else:
                print(f"{pid} seed {seed}: stable over 2 repeats x {{1,16}} workers: {next(iter(s))}")
    return 0 if bad == 0 else 2


if __name__ == "__main__":
    if len(sys.argv) < 2:
        print(__doc__)
        sys.exit(2)
    cmd, rest = sys.argv[1], sys.argv[2:]
    sys.exit({"mutants": mutants, "determinism": determinism}[cmd](rest))
