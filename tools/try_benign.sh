#!/bin/bash
# tools/try_benign.sh <name> [ID ...] : apply /verif/benign/<name>/patch.diff (a behaviour-preserving change) to /repo, run every
# quick check without touching the evidence, undo the patch. Any exit != 0 is a false alarm to be investigated.
name=$1; shift
props=${*:-C01 C02 C06 C07 C08 C09 C10 C11 C17 C18 C19 C20}
git -C /repo apply --whitespace=nowarn /verif/benign/$name/patch.diff || { echo "PATCH-DOES-NOT-APPLY"; exit 2; }
trap 'git -C /repo checkout -q -- . ; git -C /repo clean -fdq zlink-core/src zlink-tokio/src zlink-smol/src zlink-macros/src zlink/src; cd /verif && ./check build >/dev/null 2>&1' EXIT
cd /verif
for p in $props; do
  ./check $p quick --no-evidence > /tmp/benign_${name}_$p.log 2>&1; rc=$?
  echo "$name $p rc=$rc $(grep -E 'VIOLATION|violation class|HARNESS' /tmp/benign_${name}_$p.log | head -2 | cut -c1-300)"
done
