#!/bin/bash
# tools/try_patch.sh <seeded-or-mutant-name> <ID> [quick|thorough] : apply a filed patch to /repo, run one check
# without touching the evidence, undo the patch straight afterwards (never committed there).
set -u
name=$1; id=$2; tier=${3:-quick}
p=/verif/seeded/$name/patch.diff; [ -f "$p" ] || p=/verif/mutants/$name
git -C /repo apply --whitespace=nowarn "$p" || exit 2
trap 'git -C /repo checkout -q -- . ; git -C /repo clean -fdq zlink-core/src zlink-tokio/src zlink-smol/src zlink-macros/src zlink/src; cd /verif && ./check build >/dev/null 2>&1' EXIT
cd /verif && ./check $id $tier --no-evidence 2>&1 | grep -E "VIOLATION|violation class|first message|minimised message|exit [0-9]|HARNESS|KNOWN" | head -20
